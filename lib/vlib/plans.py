"""Per-property check plans (DESIGN.md section 7): which executions are generated, which
specification module judges them, which invariants state the property."""

L1_ASSUME = [
    "the abstraction alpha/gamma of DESIGN.md section 4 (hand-ordered leaf tables, strict alpha)",
    "ndjson traces are produced by the harness in /verif/harness from public API calls and the store.Store seam",
    "TLC 1.8 evaluates the specification correctly",
]


def T(name, profile, n, invariants, **kw):
    d = {"kind": "trace", "name": name, "profile": profile, "n": n, "invariants": invariants}
    d.update(kw)
    return d


def EDG(name, invariants, ops=None, states=(25, 0), reads=(30, 250), writes=(0, 0), **kw):
    """TLC-generated inputs: distinct model states x operation instances (quick: seeded sample)."""
    d = {"kind": "edges", "name": name, "module": "MC_L1", "cfg": "MC_L1_gen_quick.cfg",
         "cfg_thorough": "MC_L1_gen_thorough.cfg", "invariants": invariants, "ops": ops,
         "states": states, "reads": reads, "writes": writes, "workers": 12, "heap": "8g"}
    d.update(kw)
    return d


def MC(name, module, cfg, cfg_thorough=None, **kw):
    d = {"kind": "mc", "name": name, "module": module, "cfg": cfg}
    if cfg_thorough:
        d["cfg_thorough"] = cfg_thorough
    d.update(kw)
    return d


MC_PROPS = MC("l1-props", "MC_L1", "MC_L1_props_quick.cfg", "MC_L1_props.cfg", workers=12)

def AUX(name, aux, n, **kw):
    d = {"kind": "aux", "name": name, "aux": aux, "n": n}
    d.update(kw)
    return d


def LAWS(family, **kw):
    return MC("laws-" + family, "MC_Laws", "MC_Laws_%s.cfg" % family, workers=12, **kw)


PLANS = {}
REPLAYS = {}

PLANS["C01"] = {
    "level": "model_checking",
    "assumptions": L1_ASSUME,
    "stages": [
        T("reads", "reads", (60, 1500), ["InvC01"]),
        T("general", "general", (30, 800), ["InvC01"]),
        T("extremes", "extremes", (12, 300), ["InvC01"]),
        EDG("edges", ["InvC01"], ops=["Derived"]),
    ],
}

PLANS["C06"] = {
    "level": "model_checking",
    "assumptions": L1_ASSUME,
    "stages": [
        T("audit", "audit", (60, 1500), ["InvAudit"]),
        T("general", "general", (30, 800), ["InvAudit"]),
        EDG("edges", ["InvAudit"], states=(30, 0), reads=(1, 1), writes=(25, 150)),
    ],
}

PLANS["C08"] = {
    "level": "model_checking",
    "assumptions": L1_ASSUME,
    "stages": [
        T("sort", "sort", (60, 1500), ["InvC08"]),
        T("extremes", "extremes", (15, 300), ["InvC08"]),
        T("floats", "floats", (15, 300), ["InvC08"]),
        EDG("edges", ["InvC08"], ops=["Derived"]),
    ],
}

PLANS["C09"] = {
    "level": "model_checking",
    "assumptions": L1_ASSUME,
    "stages": [
        T("derived", "derived", (60, 1500), ["InvC09"]),
        EDG("edges", ["InvC09"], ops=["Derived", "ListIndexes", "ListCollections"]),
    ],
}

PLANS["C12"] = {
    "level": "model_checking",
    "assumptions": L1_ASSUME,
    "stages": [
        T("ids", "ids", (60, 1500), ["InvC12"]),
    ],
}

PLANS["C13"] = {
    "level": "model_checking",
    "assumptions": L1_ASSUME,
    "stages": [
        T("catalog", "catalog", (60, 1500), ["InvC13"]),
        MC_PROPS,
    ],
}

PLANS["C14"] = {
    "level": "model_checking",
    "assumptions": L1_ASSUME,
    "stages": [
        T("indexcat", "indexcat", (60, 1500), ["InvC14"]),
    ],
}

PLANS["C20"] = {
    "level": "model_checking",
    "assumptions": L1_ASSUME + ["'never blocks forever' is decided up to a 10 s per-call deadline"],
    "stages": [
        T("general", "general", (60, 1500), ["InvNoPanic"], backends="bolt,badgermem"),
        T("audit", "audit", (30, 600), ["InvNoPanic"]),
    ],
}

PLANS["C02"] = {
    "level": "model_checking",
    "assumptions": L1_ASSUME + ["index transparency is refinement of the index-free L1 model: every twin collection "
                                "(same documents, different index sets) must conform to the same specification state"],
    "stages": [
        T("twins", "twins", (14, 400), ["InvC02"], chunk=4),
        EDG("edges", ["InvC02"], ops=["Derived", "UpdateFunc", "Delete"], states=(25, 0), reads=(20, 250), writes=(6, 60)),
    ],
}

PLANS["C03"] = {
    "level": "model_checking",
    "assumptions": L1_ASSUME,
    "stages": [
        T("bulk", "bulk", (36, 240), ["InvC03"], backends="bolt,badger", chunk=3, heap="6g"),
        T("bulkbig", "bulkbig", (0, 40), ["InvC03"], backends="bolt,badger", chunk=1, heap="10g", tier="thorough"),
        T("general", "general", (30, 600), ["InvC03"]),
        EDG("edges", ["InvC03"], ops=["UpdateFunc", "Delete", "DropCollection"], states=(30, 0), reads=(0, 0), writes=(20, 0)),
    ],
}

PLANS["C11"] = {
    "level": "model_checking",
    "assumptions": L1_ASSUME + ["encode/decode fidelity is observed through the strict alpha: exact Go type, bits, instant and zone offset"],
    "stages": [
        T("rich", "rich", (60, 2000), ["InvC01", "InvAuditDocs"]),
        T("rich-reopen", "richreopen", (20, 400), ["InvC01", "InvAuditDocs", "InvReopen"], backends="bolt,badger"),
        T("extremes", "extremes", (15, 300), ["InvC01", "InvAuditDocs"]),
        T("floats", "floats", (15, 300), ["InvC01", "InvAuditDocs"]),
    ],
}

PLANS["C15"] = {
    "level": "model_checking",
    "assumptions": L1_ASSUME,
    "stages": [
        T("general3", "general", (40, 1000), ["InvBackendsAgree", "InvOutcome", "InvValue"], backends="bolt,badger,badgermem", chunk=8),
        T("sort3", "sort", (20, 500), ["InvBackendsAgree", "InvValue"], backends="bolt,badger,badgermem", chunk=8),
    ],
}

PLANS["C19"] = {
    "level": "model_checking",
    "assumptions": L1_ASSUME + ["JSON-representable documents only: finite numbers within 2^53, valid UTF-8 without NUL, no -0.0"],
    "stages": [
        T("io", "io", (60, 1500), ["InvC19", "InvExportFile", "InvValue"]),
    ],
}

AUX_ASSUME = [
    "the abstraction alpha/gamma of DESIGN.md section 4 (hand-ordered leaf tables, strict alpha)",
    "observations are made through public API only (query.Criteria.Satisfy, index.RangeIndex, document.Document, store.Store)",
    "TLC 1.8 evaluates the specification correctly",
]

PLANS["C10"] = {
    "level": "model_checking",
    "assumptions": AUX_ASSUME + ["integers beyond 2^53 are compared among integers only; key-order agreement is claimed for "
                                 "numbers within 2^53 and times from 1970 on (flags keydom in the trace)"],
    "stages": [
        LAWS("values"),
        AUX("values", "values", (64, 130), reps=(3, 9), chunk=1, heap="8g"),
        T("extremes", "extremes", (12, 200), ["InvC01", "InvC08"]),
        T("floats", "floats", (12, 200), ["InvC01", "InvC08"]),
    ],
}

PLANS["C16"] = {
    "level": "model_checking",
    "assumptions": AUX_ASSUME,
    "stages": [
        LAWS("criteria"),
        AUX("satisfy", "satisfy", (250, 5000), reps=(2, 4)),
        T("algebra", "algebra", (40, 1000), ["InvC01"]),
    ],
}

PLANS["C17"] = {
    "level": "model_checking",
    "assumptions": AUX_ASSUME + ["a nil bound that is included denotes the value nil, one that is not included an open end "
                                 "(DESIGN.md section 10)"],
    "stages": [
        LAWS("ranges", tier="thorough"),
        AUX("scan", "scan", (60, 1500)),
        AUX("intersect", "intersect", (1500, 40000), chunk=300),
    ],
}

PLANS["C18"] = {
    "level": "model_checking",
    "assumptions": AUX_ASSUME + ["struct values come from a hand-written catalogue of types (harness/norm.go); []byte / [N]byte "
                                 "are special-cased by clover and excluded"],
    "stages": [
        LAWS("norm"),
        LAWS("paths"),
        AUX("norm", "norm", (1500, 40000)),
        AUX("docpath", "docpath", (400, 10000)),
    ],
}

PLANS["C15"]["stages"].append(AUX("cursor", "cursor", (60, 1500)))
