"""Per-property check plans (DESIGN.md section 7): which executions are generated, which
specification module judges them, which invariants state the property."""

L1_ASSUME = [
    "the abstraction alpha/gamma of DESIGN.md section 4 (hand-ordered leaf tables, strict alpha)",
    "ndjson traces are produced by the harness in /verif/harness from public API calls and the store.Store seam",
    "TLC 1.8 evaluates the specification correctly",
]


def T(name, profile, n, invariants, **kw):
    d = {"kind": "trace", "name": name, "profile": profile, "n": n, "invariants": invariants}
    d.update(kw)
    return d


def EDG(name, invariants, ops=None, states=(25, 0), reads=(30, 250), writes=(0, 0), **kw):
    """TLC-generated inputs: distinct model states x operation instances (quick: seeded sample)."""
    d = {"kind": "edges", "name": name, "module": "MC_L1", "cfg": "MC_L1_gen_quick.cfg",
         "cfg_thorough": "MC_L1_gen_thorough.cfg", "invariants": invariants, "ops": ops,
         "states": states, "reads": reads, "writes": writes, "workers": 12, "heap": "8g"}
    d.update(kw)
    return d


def MC(name, module, cfg, cfg_thorough=None, **kw):
    d = {"kind": "mc", "name": name, "module": module, "cfg": cfg}
    if cfg_thorough:
        d["cfg_thorough"] = cfg_thorough
    d.update(kw)
    return d


MC_PROPS = MC("l1-props", "MC_L1", "MC_L1_props_quick.cfg", "MC_L1_props.cfg", workers=12)

# a conjunction / disjunction (possibly under one Not) of two leaves on the field x, no sort, no window:
# bounds, membership tests and their negations
_LEAF = r'(\["not", )?\["un", "[a-z]+", \[120\], \[("lit"|"list"), .*?\]\]\]?'
BOUNDS_RE = r'^\{"op": "Derived", "c": "a", "q": \[\["where", (\["not", )?\["(and|or)", ' + _LEAF + ', ' + _LEAF + r'\]\]?\]\], "js"'


# a single membership test on the field x (any window)
IN_RE = r'^\{"op": "Derived", "c": "a", "q": \[\["where", \["un", "in", \[120\]'


# a query whose whole criteria is one comparison / test on x, with a skip (any sort, any limit)
SINGLE_SORT_RE = r'^\{"op": "Derived", "c": "a", "q": \[\["where", \[("un"|"sugar"), "[a-z]+", \[120\], .*\["sort", \[\[\[120\], -?1\]\]\]'
SINGLE_SKIP_RE = r'^\{"op": "Derived", "c": "a", "q": \[\["where", \[("un"|"sugar"), "[a-z]+", \[120\], .*\["skip", 1\]'


def AUX(name, aux, n, **kw):
    d = {"kind": "aux", "name": name, "aux": aux, "n": n}
    d.update(kw)
    return d


def LAWS(family, **kw):
    return MC("laws-" + family, "MC_Laws", "MC_Laws_%s.cfg" % family, workers=12, **kw)


# key layout (CloverKV): the laws for all names over a small alphabet, the reason ';' is reserved, and
# the binding of the key constructors to the keys the code really uses
KV_LAWS = MC("kv-laws", "MC_KV", "MC_KV.cfg", "MC_KV_thorough.cfg", workers=12, timeout=1800)
KV_RESERVED = MC("kv-reserved", "MC_KV", "MC_KV_reserved.cfg", workers=4, expect_violation="Layout")
KV_FIXEDLEN = MC("kv-fixedlen-prerepair", "MC_KV", "MC_KV_fixedlen.cfg", workers=2, expect_violation="FixedSplit")
# the same laws for all byte values (names up to 4 bytes), symbolically; with ';' allowed Apalache must find the collision
KV_APA = {"kind": "apalache", "name": "kv-apalache", "module": "KVApa", "init": "Init", "inv": "KVLaws"}
KV_APA_SEMI = {"kind": "apalache", "name": "kv-apalache-reserved", "module": "KVApa", "init": "InitSemi", "inv": "KVLaws", "expect_violation": True}
KV_KEYS = AUX("kv-keys", "keys", (150, 3000), chunk=150)


def durability(ctx, st):
    """C05 (v): run a history of writes under strace and let TLC check the fsync-before-ack discipline."""
    import json, os, re, subprocess
    from . import core
    n = st["n"][0] if ctx.tier == "quick" else st["n"][1]
    lines = []
    tot = {"W": 0, "S": 0, "A": 0}
    for i in range(n):
        seed = ctx.seed * 1000 + i
        d = os.path.join(ctx.work, "dur-%d" % i)
        os.makedirs(d)
        tr = os.path.join(d, "strace.txt")
        r = subprocess.run(["strace", "-f", "-qq", "-e", "trace=pwrite64,write,fdatasync,fsync,openat", "-o", tr,
                            ctx.driver, "crashchild", "-dir", d, "-backend", "bolt", "-seed", str(seed)],
                           stdout=subprocess.PIPE, stderr=subprocess.STDOUT, text=True, timeout=600)
        if r.returncode != 0 or "DONE" not in r.stdout:
            raise core.Inconclusive("strace run failed: %s" % r.stdout[-500:])
        fd = None
        evs = [{"ev": "R", "seed": seed}]
        pending_sync = {}   # pid -> a sync of data.db was entered and has not returned yet
        for ln in open(tr, errors="replace"):
            mp = re.match(r'\s*(\d+)\s+(.*)$', ln)
            pid, rest = (mp.group(1), mp.group(2)) if mp else ("0", ln)
            m = re.search(r'openat\(AT_FDCWD, "[^"]*data\.db", [^)]*\) = (\d+)', rest)
            if m:
                fd = m.group(1)
                continue
            if fd is None:
                continue
            # strace -f splits a call that blocks into "... <unfinished ...>" and "<... name resumed>": a write
            # counts from its entry (the file may be dirty from then on), a sync only once it has returned,
            # an acknowledgement from the moment it is issued
            if re.search(r'\b(pwrite64|write)\(%s,' % fd, rest):
                evs.append({"ev": "W"})
            elif re.search(r'\b(fdatasync|fsync)\(%s\)\s*= 0' % fd, rest):
                evs.append({"ev": "S"})
            elif re.search(r'\b(fdatasync|fsync)\(%s <unfinished' % fd, rest):
                pending_sync[pid] = True
            elif re.search(r'<\.\.\. (fdatasync|fsync) resumed>.*= 0', rest) and pending_sync.pop(pid, None):
                evs.append({"ev": "S"})
            elif re.search(r'\bwrite\(1, "ACK ', rest):
                evs.append({"ev": "A"})
        for e in evs:
            if e["ev"] in tot:
                tot[e["ev"]] += 1
        lines.append([json.dumps(e) + "\n" for e in evs])
        import shutil
        shutil.rmtree(d, ignore_errors=True)
    if tot["W"] == 0 or tot["A"] == 0:
        raise core.Inconclusive("vacuous durability trace: %s" % tot)
    ctx.traces += len(lines)
    ctx.events += sum(len(x) for x in lines)
    ctx.evaluations += tot["A"]
    ctx.outcomes["durability/acks"] = tot["A"]
    ctx.outcomes["durability/data-file-writes"] = tot["W"]
    ctx.outcomes["durability/syncs"] = tot["S"]
    ctx.samples.append({"durability_trace_head": [json.loads(x) for x in lines[0][:12]]})
    found = core.validate_traces(ctx, "TraceDur", ["InvDurable"], lines, "dur", chunk=4)
    ctx.stage_log.append({"stage": "durability", "processes": n, "syscalls": tot, "rejections": len(found)})
    for info in found[:1]:
        rdir = os.path.join(os.environ.get("VERIF_REPLAY_DIR") or os.path.join(ctx.root, "replays"), ctx.prop)
        os.makedirs(rdir, exist_ok=True)
        path = os.path.join(rdir, "durability-seed%d.json" % ctx.seed)
        with open(path, "w") as f:
            json.dump({"property": ctx.prop, "invariant": "InvDurable", "replay_fn": "durability", "stage": {"n": [n, n]},
                       "seed": ctx.seed, "events_head": [json.loads(x) for x in info["trace"][:info["line_in_trace"]][-20:]]}, f, indent=1)
        ctx.violations.append({"replay": path, "invariant": "InvDurable", "event": {"ev": "A"}})
        print("VIOLATION property=%s replay=%s" % (ctx.prop, path), flush=True)
        ctx.log("  an operation was acknowledged while writes to data.db were not yet synced")


def replay_durability(ctx, rep):
    durability(ctx, {"n": rep["stage"]["n"]})
    return 1 if ctx.violations else 0


PLANS = {}
REPLAYS = {"durability": replay_durability}

PLANS["C01"] = {
    "level": "model_checking",
    "assumptions": L1_ASSUME,
    "stages": [
        T("reads", "reads", (60, 1500), ["InvC01"]),
        T("general", "general", (30, 800), ["InvC01"]),
        T("extremes", "extremes", (12, 300), ["InvC01"]),
        # strings of 100 .. 70 000 bytes that are prefixes of one another, in an indexed field
        T("longstr", "longstr", (8, 100), ["InvC01"], chunk=4, heap="6g", seed_off=27),
        # two values held by 33 .. 70 documents each: bounds on exactly those values, both directions, windows inside a run
        T("runs", "runs", (6, 80), ["InvC01", "InvC08"], chunk=3, heap="6g", seed_off=37),
        EDG("edges", ["InvC01"], ops=["Derived"]),
        # every conjunction / disjunction of two bounds on the indexed field, in both orders, on content-rich states
        EDG("edges-bounds", ["InvC01"], ops=["Derived"], rich_states=40, states=(3, 30), reads=(0, 0),
            event_re=BOUNDS_RE),
        # ... and on the states where x is absent from one document and nil in another, under an index on x
        EDG("edges-bounds-nil", ["InvC01"], ops=["Derived"], state_pred="nil_corner", states=(2, 0), reads=(0, 0), seed_off=21,
            event_re=BOUNDS_RE),
    ],
}

PLANS["C06"] = {
    "level": "model_checking",
    "assumptions": L1_ASSUME,
    "stages": [
        T("audit", "audit", (60, 1500), ["InvAudit"]),
        T("general", "general", (30, 800), ["InvAudit"]),
        # multi-page collections: bulk operations, DropIndex / CreateIndex over hundreds of entries
        T("bulk", "bulk", (24, 240), ["InvAudit"], backends="bolt,badger", chunk=3, heap="6g"),
        # documents whose _expiresAt has passed (or passes meanwhile) have their index entries like any other
        T("expiry", "expiry", (4, 40), ["InvAudit"], chunk=2, seed_off=19),
        EDG("edges", ["InvAudit"], states=(30, 0), reads=(1, 1), writes=(25, 60)),
        # a batch beyond the store's transaction limit that fails late: counts, documents and entries stay consistent
        T("huge", "huge", (2, 8), ["InvErrNoTrace", "InvAudit"], backends="rotate", chunk=1, heap="8g"),
        KV_LAWS, KV_FIXEDLEN, KV_APA, KV_KEYS,
    ],
}

PLANS["C08"] = {
    "level": "model_checking",
    "assumptions": L1_ASSUME,
    "stages": [
        T("sort", "sort", (60, 1500), ["InvC08"]),
        T("ties", "ties", (16, 400), ["InvC08"], chunk=6),
        T("extremes", "extremes", (15, 300), ["InvC08"]),
        T("floats", "floats", (15, 300), ["InvC08"]),
        T("longstr", "longstr", (8, 100), ["InvC08"], chunk=4, heap="6g", seed_off=29),
        EDG("edges", ["InvC08"], ops=["Derived"]),
        # every single-leaf criterion on the indexed field x every sort x windows with a skip, on content-rich states
        # ... and on the states where x is absent from one document and nil in another, under an index on x
        EDG("edges-single-nil", ["InvC08"], ops=["Derived"], state_pred="nil_corner", states=(8, 0), reads=(0, 0), seed_off=15, event_re=SINGLE_SKIP_RE),
        EDG("edges-single", ["InvC08"], ops=["Derived"], rich_states=150, states=(6, 100), reads=(0, 0), seed_off=13, event_re=SINGLE_SKIP_RE),
    ],
}

PLANS["C09"] = {
    "level": "model_checking",
    "assumptions": L1_ASSUME,
    "stages": [
        T("derived", "derived", (60, 1500), ["InvC09"]),
        T("ties", "ties", (24, 500), ["InvC09"], chunk=6),
        # documents whose _expiresAt has passed, or passes during the history, are documents: every derived read sees them
        T("expiry", "expiry", (6, 60), ["InvC09", "InvC01"], chunk=3, seed_off=17),
        EDG("edges", ["InvC09"], ops=["Derived", "ListIndexes", "ListCollections"]),
        # every membership test over two literals, every window, stopped after 1 and 2 visits, on content-rich states
        EDG("edges-in", ["InvC09"], ops=["Derived"], rich_states=40, states=(3, 30), reads=(0, 0), seed_off=11, event_re=IN_RE),
    ],
}

PLANS["C12"] = {
    "level": "model_checking",
    "assumptions": L1_ASSUME,
    "stages": [
        T("ids", "ids", (60, 1500), ["InvC12"]),
        # a batch beyond the store's transaction limit that fails late on a duplicate / malformed _id: nothing of it may stay
        T("huge", "huge", (2, 8), ["InvErrNoTrace", "InvNoPanic"], backends="rotate", chunk=1, heap="8g"),
    ],
}

PLANS["C13"] = {
    "level": "model_checking",
    "assumptions": L1_ASSUME,
    "stages": [
        T("catalog", "catalog", (60, 1500), ["InvC13"]),
        # compound creations (import, create-by-query) that fail half-way, then the catalog questions
        T("io", "io", (20, 400), ["InvC13"]),
        MC_PROPS,
        KV_LAWS, KV_RESERVED, KV_APA, KV_APA_SEMI, KV_KEYS,
    ],
}

PLANS["C14"] = {
    "level": "model_checking",
    "assumptions": L1_ASSUME,
    "stages": [
        T("indexcat", "indexcat", (60, 1500), ["InvC14"]),
        KV_LAWS, KV_APA, KV_KEYS,
        # the catalog under concurrent creations and drops of one index: exactly one creation succeeds, and the
        # history has a sequential explanation (TraceLin)
        {"kind": "lin", "name": "lin-index", "n": (30, 900), "maxg": 3, "ops": 2, "family": "index", "backends": "bolt,badger,bolt", "chunk": 10, "seed_off": 71},
    ],
}

PLANS["C20"] = {
    "level": "model_checking",
    "assumptions": L1_ASSUME + ["'never blocks forever' is decided up to a 60 s per-call deadline"],
    "stages": [
        T("general", "general", (60, 1500), ["InvNoPanic"], backends="bolt,badgermem"),
        T("audit", "audit", (30, 600), ["InvNoPanic"]),
        T("closed", "closed", (20, 400), ["InvNoPanic"], backends="bolt,badger"),
        T("rich", "rich", (20, 400), ["InvNoPanic"]),
        T("extremes", "extremes", (10, 200), ["InvNoPanic"]),
        # instants from year 1 to 9999, also before 1970, in indexed, filtered and sorted fields
        T("alltimes", "alltimes", (12, 200), ["InvNoPanic"]),
        # export / import / create-by-query histories (also on names that exist), closed at the end
        T("io", "io", (20, 400), ["InvNoPanic"], backends="bolt,badger"),
        EDG("edges", ["InvNoPanic"], states=(20, 0), reads=(30, 200), writes=(10, 40)),
        # model level: the protocol between Begin and Close (CloverClose), as the stores implement it now ("count"),
        # as the badger adapter did before P41 (TLC finds the use of a closed store) and as a read/write lock taken
        # recursively would (TLC finds the deadlock)
        MC("close-count", "CloverClose", "MC_Close_count.cfg", workers=4),
        MC("close-flag-prerepair", "CloverClose", "MC_Close_flag.cfg", workers=4, expect_violation="NoUseAfterClose"),
        MC("close-rwlock-recursive", "CloverClose", "MC_Close_rwlock.cfg", workers=4, expect_violation="Deadlock"),
        # the handle is closed by one goroutine while others use it: every call returns (no panic, no call that waits for
        # ever), Close takes effect at one instant, and the calls after it fail (TraceLin with the open flag)
        # ... and in bulk, without a history to explain: 4-8 goroutines run 150 operations each (mostly operations built on
        # other public operations) while one closes the handle; per trial: every call returned, none panicked, none
        # succeeded after Close had returned (CloseRaceOk, the properties CloverClose proves of the "count" design)
        AUX("closerace", "closerace", (90, 1200), chunk=30, seed_off=87),
        {"kind": "lin", "name": "lin-close", "n": (150, 3000), "maxg": 5, "ops": 8, "family": "close", "chunk": 15, "seed_off": 83},
        # the public query / index / document APIs called directly
        AUX("satisfy", "satisfy", (250, 5000), invariants=["InvAuxNoPanic"]),
        AUX("scan", "scan", (30, 600), invariants=["InvAuxNoPanic"]),
        AUX("norm", "norm", (800, 20000), invariants=["InvAuxNoPanic"]),
        AUX("cursor", "cursor", (30, 600), invariants=["InvAuxNoPanic"]),
        AUX("plan", "plan", (300, 6000), invariants=["InvAuxNoPanic"], chunk=150),
    ],
}

PLANS["C02"] = {
    "level": "model_checking",
    "assumptions": L1_ASSUME + ["index transparency is refinement of the index-free L1 model: every twin collection "
                                "(same documents, different index sets) must conform to the same specification state"],
    "stages": [
        T("twins", "twins", (14, 400), ["InvC02"], chunk=4),
        # ordinary histories with the sweeps (containers changed in place, indexes and collections dropped and re-created)
        T("general", "general", (20, 400), ["InvC02"]),
        EDG("edges", ["InvC02"], ops=["Derived", "UpdateFunc", "Delete"], states=(25, 0), reads=(20, 250), writes=(6, 60)),
        # the planner's own visitors, chained as getIndexQueries does: derived range is a superset
        AUX("plan", "plan", (600, 15000), chunk=150),
        MC("plan-laws", "MC_Plan", "MC_Plan_planq.cfg", "MC_Plan_plan.cfg", workers=12, timeout=1800),
        AUX("plan-model", "plan", (300, 3000), chunk=150, invariants=["InvPlanModel"], advisory=True, seed_off=9),
        EDG("edges-bounds", ["InvC02"], ops=["Derived"], rich_states=40, states=(3, 30), reads=(0, 0), seed_off=5,
            event_re=BOUNDS_RE),
        EDG("edges-bounds-nil", ["InvC02"], ops=["Derived"], state_pred="nil_corner", states=(2, 0), reads=(0, 0), seed_off=23,
            event_re=BOUNDS_RE),
        # every single-leaf criterion on x with a sort on x, either direction, every window
        EDG("edges-single-sorted", ["InvC02"], ops=["Derived"], rich_states=150, states=(5, 60), reads=(0, 0), seed_off=25,
            event_re=SINGLE_SORT_RE),
        # the same family on one (thorough: four) content-rich state, 32 times: collection names 0..15 bytes longer (keys,
        # and the buffers they are built in, of every length modulo an allocator's size classes), the model's numbers
        # read as 1, 2, 3 and as 0, 1, 2 (the shortest encodings)
        EDG("edges-single-sorted-grid", ["InvC02"], ops=["Derived"], rich_states=150, states=(1, 4), reads=(0, 0), seed_off=35,
            event_re=SINGLE_SORT_RE, copies=32),
    ],
}

PLANS["C03"] = {
    "level": "model_checking",
    "assumptions": L1_ASSUME,
    "stages": [
        T("bulk", "bulk", (36, 240), ["InvC03", "InvC03Pair", "InvBackendsAgree"], backends="bolt,badger", chunk=3, heap="6g"),
        T("bulkbig", "bulkbig", (0, 40), ["InvC03"], backends="bolt,badger", chunk=1, heap="10g", tier="thorough"),
        T("general", "general", (30, 600), ["InvC03"]),
        # DropCollection among collections whose names are prefixes of each other
        T("catalog", "catalog", (30, 600), ["InvC03"]),
        # bulk operations over documents whose _id an earlier update tried to re-spell or rewrite
        T("ids", "ids", (20, 400), ["InvC03"]),
        EDG("edges", ["InvC03"], ops=["UpdateFunc", "Delete", "DropCollection"], states=(30, 0), reads=(0, 0), writes=(20, 40)),
    ],
}

PLANS["C11"] = {
    "level": "model_checking",
    "assumptions": L1_ASSUME + ["encode/decode fidelity is observed through the strict alpha: exact Go type, bits, instant and zone offset"],
    "stages": [
        T("tzwitness", "tzwitness", (1, 1), ["InvC01"], backends="bolt"),
        T("rich", "rich", (60, 2000), ["InvC01", "InvAuditDocs"]),
        T("rich-reopen", "richreopen", (20, 400), ["InvC01", "InvAuditDocs", "InvReopen"], backends="bolt,badger"),
        T("retype", "retype", (25, 400), ["InvC01", "InvAuditDocs"]),
        T("retype-reopen", "retypereopen", (8, 100), ["InvC01", "InvAuditDocs", "InvReopen"], backends="bolt,badger"),
        T("extremes", "extremes", (15, 300), ["InvC01", "InvAuditDocs"]),
        T("floats", "floats", (15, 300), ["InvC01", "InvAuditDocs"]),
        # documents of 4 KB and more, several of them written by one call (one store transaction)
        T("pads", "pads", (8, 120), ["InvC01", "InvAuditDocs"], chunk=4, heap="6g", seed_off=23),
    ],
}

PLANS["C15"] = {
    "level": "model_checking",
    "assumptions": L1_ASSUME,
    "stages": [
        T("general3", "general", (40, 1000), ["InvBackendsAgree", "InvAuditAgree", "InvOutcome", "InvValue"], backends="bolt,badger,badgermem", chunk=8),
        T("audit3", "audit", (20, 500), ["InvBackendsAgree", "InvAuditAgree"], backends="bolt,badger,badgermem", chunk=8),
        T("bulk3", "bulk", (12, 120), ["InvBackendsAgree", "InvAuditAgree"], backends="bolt,badger", chunk=3, heap="6g"),
        T("sort3", "sort", (20, 500), ["InvBackendsAgree", "InvValue"], backends="bolt,badger,badgermem", chunk=8),
        # documents from a few bytes to 70 KB on the three backends at once
        T("runs3", "runs", (4, 60), ["InvBackendsAgree", "InvAuditAgree", "InvValue"], backends="bolt,badger,badgermem", chunk=2, heap="6g", seed_off=39),
        T("pads3", "pads", (10, 200), ["InvBackendsAgree", "InvAuditAgree", "InvOutcome"], backends="bolt,badger,badgermem", chunk=5, heap="6g"),
        # _expiresAt a moment ahead of the wall clock, which then passes it: nothing may expire on any backend
        T("expiry3", "expiry", (3, 12), ["InvBackendsAgree", "InvAuditAgree", "InvOutcome", "InvValue", "InvAudit"],
          backends="bolt,badger,badgermem", chunk=3),
    ],
}

PLANS["C19"] = {
    "level": "model_checking",
    "assumptions": L1_ASSUME + ["JSON-representable documents only: finite numbers within 2^53, valid UTF-8 without NUL, no -0.0"],
    "stages": [
        T("io", "io", (60, 1500), ["InvC19", "InvExportFile", "InvValue"]),
    ],
}

AUX_ASSUME = [
    "the abstraction alpha/gamma of DESIGN.md section 4 (hand-ordered leaf tables, strict alpha)",
    "observations are made through public API only (query.Criteria.Satisfy, index.RangeIndex, document.Document, store.Store)",
    "TLC 1.8 evaluates the specification correctly",
]

PLANS["C10"] = {
    "level": "model_checking",
    "assumptions": AUX_ASSUME + ["integers beyond 2^53 are compared among integers only; key-order agreement is claimed for "
                                 "numbers within 2^53 and times from 1970 on (flags keydom in the trace)"],
    "stages": [
        LAWS("values"),
        AUX("values", "values", (64, 130), reps=(4, 12), chunk=1, heap="8g"),
        # times up to year 9999 (beyond what 64 bits of nanoseconds hold) in indexed, filtered and sorted fields
        T("fartimes", "fartimes", (12, 200), ["InvC01", "InvC08"]),
        T("strkeys", "strkeys", (12, 200), ["InvC01", "InvC08"]),
        T("longstr", "longstr", (8, 100), ["InvC01", "InvC08"], chunk=4, heap="6g", seed_off=31),
        T("extremes", "extremes", (12, 200), ["InvC01", "InvC08"]),
        T("floats", "floats", (12, 200), ["InvC01", "InvC08"]),
    ],
}

PLANS["C16"] = {
    "level": "model_checking",
    "assumptions": AUX_ASSUME,
    "stages": [
        LAWS("criteria"),
        AUX("satisfy", "satisfy", (250, 5000), reps=(2, 4)),
        T("algebra", "algebra", (40, 1000), ["InvC01"]),
    ],
}

PLANS["C17"] = {
    "level": "model_checking",
    "assumptions": AUX_ASSUME + ["a nil bound that is included denotes the value nil, one that is not included an open end "
                                 "(DESIGN.md section 10)"],
    "stages": [
        LAWS("ranges", tier="thorough"),
        AUX("scan", "scan", (60, 1500)),
        AUX("intersect", "intersect", (1500, 40000), chunk=300),
    ],
}

PLANS["C18"] = {
    "level": "model_checking",
    "assumptions": AUX_ASSUME + ["struct values come from a hand-written catalogue of types (harness/norm.go); []byte / [N]byte "
                                 "are special-cased by clover and excluded"],
    "stages": [
        LAWS("norm"),
        LAWS("paths"),
        AUX("norm", "norm", (1500, 40000)),
        AUX("docpath", "docpath", (400, 10000)),
        # Insert converts what it stores, not what it was given: the caller's document reads the same afterwards
        T("rich-args", "rich", (15, 300), ["InvNoPanic"]),
    ],
}

PLANS["C15"]["stages"].append(AUX("cursor", "cursor", (60, 1500)))

PLANS["C04"] = {
    "level": "fault_enumeration",
    "assumptions": L1_ASSUME + ["store failures are injected by a store.Store decorator at the k-th fallible call "
                                "(begin, get, set, delete, cursor item read, commit); a failing commit rolls the underlying transaction back"],
    "rule": "evaluations = public calls executed (setup, faulted calls, follow-up writes); a case is one (operation kind, failing "
            "call kind, outcome) tuple; distinct_nontrivial counts the distinct tuples observed",
    "stages": [
        T("fault", "-", (6, 60), ["InvFault", "InvFaultRest", "InvNoPanic"], cmd="fault", args=["-mode", "one", "-targets", "9"], chunk=1),
        T("fault-all", "-", (0, 12), ["InvFault", "InvFaultRest", "InvNoPanic"], cmd="fault", args=["-mode", "one", "-targets", "0", "-followup", "3"], chunk=1, tier="thorough", seed_off=500),
        T("invalid", "audit", (40, 800), ["InvErrNoTrace", "InvOutcome"]),
        T("ids", "ids", (30, 600), ["InvErrNoTrace", "InvOutcome"]),
        T("io", "io", (20, 400), ["InvErrNoTrace", "InvC19"]),
        # operations of about 11 MB (beyond badger's transaction size limit): an error leaves no trace
        T("huge", "huge", (3, 12), ["InvErrNoTrace", "InvNoPanic"], backends="rotate", chunk=1, heap="8g"),
    ],
}

PLANS["C05"] = {
    "level": "fault_enumeration",
    "assumptions": L1_ASSUME + ["crash = process kill (SIGKILL) or abandonment of the store transaction at a chosen call; power loss with torn "
                                "sectors is out of reach; for badger only process-kill durability is claimed"],
    "rule": "evaluations = public calls executed; a case is one (operation kind, abandoned call kind / kill instant class, outcome) tuple",
    "stages": [
        T("reopen", "reopen", (24, 600), ["InvReopen", "InvAudit", "InvOneTx"], backends="bolt,badger", args=["-txlog"], chunk=6),
        # a data file of several MB of which more than half is freed, then reopened, written to, reopened
        T("shrink-reopen", "shrinkreopen", (2, 12), ["InvReopen", "InvAudit"], backends="bolt,badger", chunk=1, heap="8g", seed_off=47),
        T("abandon", "-", (4, 40), ["InvFault", "InvFaultRest", "InvReopen", "InvNoPanic"], cmd="fault",
          args=["-mode", "abandon", "-targets", "7"], chunk=1),
        # single failed calls followed by acknowledged writes on the same handle, then close / reopen: what a failed
        # call left behind in memory must not reach the disk with the next write
        T("fault-reopen", "-", (4, 40), ["InvFault", "InvFaultRest", "InvReopen", "InvNoPanic"], cmd="fault",
          args=["-mode", "one", "-targets", "5", "-followup", "4", "-reopen", "2", "-backends", "bolt,badger"], chunk=1, seed_off=29),
        # an insert of about 11 MB (beyond badger's transaction size limit) abandoned at every 23rd store call
        T("abandon-huge", "-", (2, 8), ["InvFault", "InvFaultRest", "InvReopen", "InvNoPanic"], cmd="fault",
          args=["-mode", "abandon", "-huge", "-backends", "badger,bolt"], chunk=1, heap="8g", seed_off=41),
        T("onetx", "general", (20, 400), ["InvOneTx"], args=["-txlog"]),
        T("kill", "-", (30, 600), ["InvCrash", "InvCrashAcks"], cmd="crash", args=["-workdir", "{work}"], chunk=10),
        # kills deep inside operations that rewrite thousands of keys (index build / drop, bulk update, collection drop)
        T("kill-big", "-", (16, 120), ["InvCrash", "InvCrashAcks"], cmd="crash", args=["-workdir", "{work}", "-big"], chunk=2, heap="8g", seed_off=17),
        {"kind": "custom", "name": "durability", "fn": durability, "n": (2, 12)},
    ],
}

PLANS["C07"] = {
    "level": "model_checking",
    "assumptions": L1_ASSUME + ["schedules are sampled: goroutines are perturbed (Gosched / short sleeps) at every store call; real-time order "
                                "comes from atomic tickets taken before each call and after each return",
                                "the data-race clause is decided by the Go race detector under the same drivers, not by TLA+",
                                "bulk operations in concurrent programs carry no skip/limit (their selection must be decidable from the history)"],
    "stages": [
        # model level: every interleaving of the store transactions of 2 (thorough: 3) operations, every
        # pair of operations, every small initial content, both store semantics
        MC("conc-bolt", "CloverConc", "MC_Conc_bolt.cfg", workers=12),
        MC("conc-badger", "CloverConc", "MC_Conc_badger.cfg", workers=12),
        MC("conc-badger-prerepair", "CloverConc", "MC_Conc_badger_prefix.cfg", workers=12, expect_violation="Linearizable"),
        MC("conc-badger3", "CloverConc", "MC_Conc_badger3.cfg", workers=14, heap="24g", timeout=3000, tier="thorough"),
        MC("conc-badger3-prerepair", "CloverConc", "MC_Conc_badger3_prepoint.cfg", workers=14, heap="24g", timeout=3000,
           tier="thorough", expect_violation="Linearizable"),
        # binding of the model to the code: the keys each operation really reads / writes (advisory drift)
        AUX("rwset", "rwset", (1, 1), module="TraceRW", invariants=["InvRW"], advisory=True, chunk=200),
        {"kind": "lin", "name": "lin", "n": (90, 3000), "maxg": 4, "ops": 3, "chunk": 10},
        {"kind": "lin", "name": "lin-wide", "n": (30, 1000), "maxg": 8, "ops": 3, "chunk": 5, "seed_off": 31},
        {"kind": "lin", "name": "lin-index", "n": (15, 450), "maxg": 3, "ops": 2, "family": "index", "chunk": 15, "seed_off": 71},
        # the same programs on the bare adapters (no decorator between clover and the store, so code that asks a
        # transaction for optional interfaces behaves as in production); conflicts arise on their own
        {"kind": "lin", "name": "lin-raw", "n": (45, 1500), "maxg": 5, "ops": 3, "raw": True, "chunk": 9, "seed_off": 53},
        # deterministic schedules on the optimistic store: a bulk update held open (gate in its first callback)
        # while a point update and then a reader run to completion
        {"kind": "lin", "name": "lin-gated", "n": (12, 60), "gated": True, "backends": "badger,badgermem", "chunk": 12, "seed_off": 63},
        # every behaviour of CloverConc with two goroutines (initial content x pair of operations x order of the
        # Start / Finish steps), replayed on the real code with gates at the store's Begin and Commit
        {"kind": "lin", "name": "lin-sched", "n": (400, 1000000), "sched": ["MC_ConcEmit_badger.cfg", "MC_ConcEmit_bolt.cfg"],
         "sched_risky": ["MC_ConcEmit_badger_risky.cfg"], "sched_sim_risky": [("MC_ConcEmit_badger3_risky.cfg", 200000)],
         "chunk": 20, "seed_off": 77},
        # three goroutines: behaviours drawn by TLC's simulation mode (the exhaustive graph has 28 M states)
        {"kind": "lin", "name": "lin-sched3", "n": (120, 6000), "sched_sim": ["MC_ConcEmit_badger3.cfg"], "chunk": 20, "seed_off": 91},
        {"kind": "race", "name": "race", "n": (24, 600), "maxg": 6},
    ],
}

# model configurations shared by the quick checks (their emission is cached by `vcheck warm`)
WARM = [EDG("warm", [])]
WARM_MC = [LAWS(f) for f in ("values", "criteria", "norm", "paths")] + [MC_PROPS,
           MC("plan-laws", "MC_Plan", "MC_Plan_planq.cfg", workers=12),
           MC("conc-bolt", "CloverConc", "MC_Conc_bolt.cfg", workers=12),
           MC("conc-badger", "CloverConc", "MC_Conc_badger.cfg", workers=12),
           MC("conc-badger-prerepair", "CloverConc", "MC_Conc_badger_prefix.cfg", workers=12, expect_violation="Linearizable"),
           KV_LAWS, KV_RESERVED, KV_FIXEDLEN]
WARM_APA = [KV_APA, KV_APA_SEMI]
WARM_CONC = [{"module": "MC_ConcEmit", "cfg": c, "workers": 8, "heap": "8g", "name": "conc-emit"}
             for c in ("MC_ConcEmit_badger.cfg", "MC_ConcEmit_bolt.cfg", "MC_ConcEmit_badger_risky.cfg")]
