"""Per-property check plans (DESIGN.md section 7): which executions are generated, which
specification module judges them, which invariants state the property."""

L1_ASSUME = [
    "the abstraction alpha/gamma of DESIGN.md section 4 (hand-ordered leaf tables, strict alpha)",
    "ndjson traces are produced by the harness in /verif/harness from public API calls and the store.Store seam",
    "TLC 1.8 evaluates the specification correctly",
]


def T(name, profile, n, invariants, **kw):
    d = {"kind": "trace", "name": name, "profile": profile, "n": n, "invariants": invariants}
    d.update(kw)
    return d


def EDG(name, invariants, ops=None, states=(25, 0), reads=(30, 250), writes=(0, 0), **kw):
    """TLC-generated inputs: distinct model states x operation instances (quick: seeded sample)."""
    d = {"kind": "edges", "name": name, "module": "MC_L1", "cfg": "MC_L1_gen_quick.cfg",
         "cfg_thorough": "MC_L1_gen_thorough.cfg", "invariants": invariants, "ops": ops,
         "states": states, "reads": reads, "writes": writes, "workers": 12, "heap": "8g"}
    d.update(kw)
    return d


def MC(name, module, cfg, cfg_thorough=None, **kw):
    d = {"kind": "mc", "name": name, "module": module, "cfg": cfg}
    if cfg_thorough:
        d["cfg_thorough"] = cfg_thorough
    d.update(kw)
    return d


MC_PROPS = MC("l1-props", "MC_L1", "MC_L1_props_quick.cfg", "MC_L1_props.cfg", workers=12)

PLANS = {}
REPLAYS = {}

PLANS["C01"] = {
    "level": "model_checking",
    "assumptions": L1_ASSUME,
    "stages": [
        T("reads", "reads", (60, 1500), ["InvC01"]),
        T("general", "general", (30, 800), ["InvC01"]),
        T("extremes", "extremes", (12, 300), ["InvC01"]),
        EDG("edges", ["InvC01"], ops=["Derived"]),
    ],
}

PLANS["C06"] = {
    "level": "model_checking",
    "assumptions": L1_ASSUME,
    "stages": [
        T("audit", "audit", (60, 1500), ["InvAudit"]),
        T("general", "general", (30, 800), ["InvAudit"]),
        EDG("edges", ["InvAudit"], states=(30, 0), reads=(1, 1), writes=(25, 150)),
    ],
}

PLANS["C08"] = {
    "level": "model_checking",
    "assumptions": L1_ASSUME,
    "stages": [
        T("sort", "sort", (60, 1500), ["InvC08"]),
        T("extremes", "extremes", (15, 300), ["InvC08"]),
        T("floats", "floats", (15, 300), ["InvC08"]),
        EDG("edges", ["InvC08"], ops=["Derived"]),
    ],
}

PLANS["C09"] = {
    "level": "model_checking",
    "assumptions": L1_ASSUME,
    "stages": [
        T("derived", "derived", (60, 1500), ["InvC09"]),
        EDG("edges", ["InvC09"], ops=["Derived", "ListIndexes", "ListCollections"]),
    ],
}

PLANS["C12"] = {
    "level": "model_checking",
    "assumptions": L1_ASSUME,
    "stages": [
        T("ids", "ids", (60, 1500), ["InvC12"]),
    ],
}

PLANS["C13"] = {
    "level": "model_checking",
    "assumptions": L1_ASSUME,
    "stages": [
        T("catalog", "catalog", (60, 1500), ["InvC13"]),
        MC_PROPS,
    ],
}

PLANS["C14"] = {
    "level": "model_checking",
    "assumptions": L1_ASSUME,
    "stages": [
        T("indexcat", "indexcat", (60, 1500), ["InvC14"]),
    ],
}

PLANS["C20"] = {
    "level": "model_checking",
    "assumptions": L1_ASSUME + ["'never blocks forever' is decided up to a 10 s per-call deadline"],
    "stages": [
        T("general", "general", (60, 1500), ["InvNoPanic"], backends="bolt,badgermem"),
        T("audit", "audit", (30, 600), ["InvNoPanic"]),
    ],
}
