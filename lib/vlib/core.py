"""Orchestration: build the driver against /repo's current tree, generate / replay executions of the
real code, have TLC judge them against the TLA+ specification, write evidence, report verdicts."""
import concurrent.futures as cf
import json
import os
import re
import shutil
import subprocess
import sys
import time

JARS = "/opt/veriftools/tla/tla2tools.jar:/opt/veriftools/tla/CommunityModules-deps.jar"
GOENV = {"GOFLAGS": "-mod=mod", "GOPROXY": "off", "GOSUMDB": "off", "GOTOOLCHAIN": "local"}


MAX_REPORTS = 3


class Inconclusive(Exception):
    pass


class SutCrash(Exception):
    """The driver process died of a panic raised inside the code under test (clover or a module it
    depends on) in a goroutine the harness cannot guard - e.g. a store's background writer."""
    def __init__(self, args, output):
        Exception.__init__(self, "the code under test crashed the process")
        self.cmd_args, self.output = args, output


class Ctx:
    def __init__(self, root, prop, tier, seed):
        self.root, self.prop, self.tier, self.seed = root, prop, tier, seed
        self.t0 = time.time()
        self.work = os.path.join(root, ".work", "%s-%s-%d" % (prop, tier, os.getpid()))
        shutil.rmtree(self.work, ignore_errors=True)
        os.makedirs(self.work)
        self.spec = os.path.join(root, "spec")
        self.driver = None
        # evidence accumulators
        self.states = 0
        self.transitions = 0
        self.traces = 0
        self.events = 0
        self.evaluations = 0
        self.samples = []
        self.mc_runs = []
        self.stage_log = []
        self.outcomes = {}
        self.violations = []
        self.known_printed = []
        self.assumptions = []
        self.extra = {}
        self.known = load_known(root)

    def log(self, *a):
        print("[%s %6.1fs]" % (self.prop, time.time() - self.t0), *a, flush=True)

    def cleanup(self):
        if os.environ.get("VERIF_KEEP"):
            return
        shutil.rmtree(self.work, ignore_errors=True)
        try:
            os.rmdir(os.path.join(self.root, ".work"))
        except OSError:
            pass


def load_known(root):
    p = os.path.join(root, "known_findings.json")
    if not os.path.exists(p):
        return []
    with open(p) as f:
        return json.load(f).get("findings", [])


# ------------------------------------------------------------------ building

def build_driver(ctx):
    """Rebuild the Go driver against /repo's current working tree (hooks on)."""
    out = os.path.join(ctx.work, "driver")
    env = dict(os.environ)
    env.update(GOENV)
    hdir = os.path.join(ctx.root, "harness")
    repo = os.environ.get("VERIF_REPO", "/repo")
    if repo != "/repo":
        # development aid: measure a scratch worktree of ostafen/clover instead of /repo
        src = os.path.join(ctx.work, "harness-src")
        shutil.copytree(hdir, src)
        with open(os.path.join(src, "go.mod")) as f:
            gm = f.read().replace("=> /repo", "=> " + repo)
        with open(os.path.join(src, "go.mod"), "w") as f:
            f.write(gm)
        hdir = src
        ctx.harness_dir = src
    # go.sum must cover clover's dependencies
    try:
        shutil.copyfile(os.path.join(repo, "go.sum"), os.path.join(hdir, "go.sum"))
    except OSError:
        pass
    r = subprocess.run(["go", "build", "-tags", "verif", "-o", out, "."], cwd=hdir, env=env,
                       stdout=subprocess.PIPE, stderr=subprocess.STDOUT, text=True)
    if r.returncode != 0:
        raise Inconclusive("driver does not build against /repo:\n" + r.stdout[-3000:])
    ctx.driver = out
    return out


def run_driver(ctx, args, timeout=1800, env_extra=None):
    env = dict(os.environ)
    env.update(GOENV)
    if env_extra:
        env.update(env_extra)
    r = subprocess.run([ctx.driver] + args, cwd=ctx.work, env=env, stdout=subprocess.PIPE,
                       stderr=subprocess.STDOUT, text=True, timeout=timeout)
    if r.returncode != 0:
        m = re.search(r"(?s)\n(?:panic|fatal error): .*?\n\ngoroutine \d+[^\n]*\[running\]:\n(.*?)(\n\n|$)", "\n" + r.stdout)
        if m and "HARNESS PANIC" not in r.stdout:
            frames = m.group(1)
            first = frames.strip().splitlines()[0] if frames.strip() else ""
            in_sut = ("ostafen/clover" in frames or "dgraph-io/badger" in frames or "go.etcd.io/bbolt" in frames)
            if in_sut and not first.startswith("main.") and "verifharness" not in first:
                raise SutCrash(args, r.stdout[-4000:])
        raise Inconclusive("driver failed (%s): %s" % (" ".join(args), r.stdout[-3000:]))
    return r.stdout


# ------------------------------------------------------------------ TLC

STATS_RE = re.compile(r"(\d+) states generated, (\d+) distinct states found")


def tlc(ctx, module, cfg_text, name, env=None, workers=1, timeout=900, heap="6g", extra=None, deque=False):
    """Run TLC on spec/<module>.tla with the given cfg in a scratch directory."""
    d = os.path.join(ctx.work, "tlc-" + name)
    shutil.rmtree(d, ignore_errors=True)
    os.makedirs(d)
    for f in os.listdir(ctx.spec):
        if f.endswith(".tla"):
            shutil.copyfile(os.path.join(ctx.spec, f), os.path.join(d, f))
    with open(os.path.join(d, module + ".cfg"), "w") as f:
        f.write(cfg_text)
    e = dict(os.environ)
    if env:
        e.update(env)
    e.pop("JAVA_TOOL_OPTIONS", None)
    # TLC leaves an empty directory in java.io.tmpdir at every start: keep it inside the scratch directory of the run
    os.makedirs(os.path.join(d, "tmp"), exist_ok=True)
    cmd = ["timeout", str(timeout), "java", "-Xmx" + heap, "-Xss64m", "-XX:+UseParallelGC", "-Djava.io.tmpdir=" + os.path.join(d, "tmp")]
    if deque:
        cmd.append("-Dtlc2.tool.queue.IStateQueue=StateDeque")
    cmd += ["-cp", JARS, "tlc2.TLC", "-workers", str(workers), "-metadir", os.path.join(d, "meta"),
            "-config", module + ".cfg"]
    if extra:
        cmd += extra
    cmd.append(module + ".tla")
    t0 = time.time()
    r = subprocess.run(cmd, cwd=d, env=e, stdout=subprocess.PIPE, stderr=subprocess.STDOUT, text=True)
    out = r.stdout
    res = {"rc": r.returncode, "out": out, "wall": time.time() - t0, "dir": d,
           "generated": 0, "distinct": 0, "violated": None, "ok": False, "error": None, "last_l": None}
    m = None
    for m in STATS_RE.finditer(out):
        pass
    if m:
        res["generated"], res["distinct"] = int(m.group(1)), int(m.group(2))
    else:
        ms = re.search(r"The number of states generated: (\d+)", out)   # simulation mode
        if ms:
            res["generated"] = int(ms.group(1))
    mi = re.search(r"Error: Invariant (\w+) is violated", out)
    if mi:
        res["violated"] = mi.group(1)
        ls = re.findall(r"(?m)^(?:/\\ )?l = (\d+)", out)
        if ls:
            res["last_l"] = int(ls[-1])
    elif "Error: Deadlock reached." in out:
        res["violated"] = "Deadlock"
    elif "Temporal properties were violated" in out:
        res["violated"] = "Temporal"
    elif "Model checking completed. No error has been found." in out:
        res["ok"] = True
    elif "Postcondition" in out and "is false" in out:
        res["error"] = "postcondition"
    elif r.returncode == 124:
        res["error"] = "timeout"
    else:
        res["error"] = "tlc-error"
    return res


# ------------------------------------------------------------------ trace files

def split_traces(path):
    """Return list of traces; each a list of raw lines starting with its Reset line."""
    traces = []
    with open(path) as f:
        for line in f:
            if not line.strip():
                continue
            if line.startswith('{"backends"') or '"op":"Reset"' in line[:400]:
                traces.append([])
            if not traces:
                traces.append([])
            traces[-1].append(line)
    return traces


TRACE_CFG = """SPECIFICATION TraceSpec
INVARIANTS %s
POSTCONDITION TraceAccepted
ALIAS TraceAlias
CHECK_DEADLOCK FALSE
"""


CFG_EXTRA = {
    "TraceRW": 'CONSTANTS\n  Backend = "badger"\n  MetaAlways = TRUE\n  PointMeta = TRUE\n  Gs = {1}\n  IdSet = {1, 2}\n  Vals = {1, 2}\n  WithReads = FALSE\n',
}


def validate_chunk(ctx, module, invariants, lines, name, heap="4g", timeout=900):
    """Validate one chunk (a list of raw ndjson lines); returns the tlc() result."""
    p = os.path.join(ctx.work, "chunk-%s.ndjson" % name)
    with open(p, "w") as f:
        f.writelines(lines)
    cfg = TRACE_CFG % " ".join(invariants) + CFG_EXTRA.get(module, "")
    return tlc(ctx, module, cfg, name, env={"TRACE_FILE": p}, workers=1, heap=heap, timeout=timeout)


def validate_traces(ctx, module, invariants, traces, label, chunk=12, par=8, max_reports=4, heap="4g"):
    """Validate traces (lists of lines) in parallel chunks.  On an invariant violation the offending
    trace is recorded and removed and the rest of its chunk is validated again, so that one early
    rejection does not leave the remainder unexamined.  Returns list of violation dicts."""
    chunks = [traces[i:i + chunk] for i in range(0, len(traces), chunk)]
    found = []

    def work(ci, group):
        out = []
        group = list(group)
        rounds = 0
        while group:
            rounds += 1
            lines = [ln for t in group for ln in t]
            r = validate_chunk(ctx, module, invariants, lines, "%s-%d-%d" % (label, ci, rounds), heap=heap)
            if r["ok"]:
                out.append(("ok", r, None))
                break
            if r["violated"] and r["last_l"]:
                # which trace holds log line last_l - 1 ?
                idx = r["last_l"] - 1
                acc = 0
                for ti, t in enumerate(group):
                    if idx <= acc + len(t):
                        out.append(("violation", r, {"trace": t, "line_in_trace": idx - acc,
                                                     "invariant": r["violated"]}))
                        group = group[:ti] + group[ti + 1:]
                        break
                    acc += len(t)
                else:
                    out.append(("error", r, None))
                    break
                if rounds > max_reports:
                    break
                continue
            out.append(("error", r, None))
            break
        return out

    with cf.ThreadPoolExecutor(max_workers=par) as ex:
        futs = [ex.submit(work, ci, g) for ci, g in enumerate(chunks)]
        for fu in futs:
            for kind, r, info in fu.result():
                ctx.states += r["distinct"]
                ctx.transitions += r["generated"]
                if kind == "violation":
                    found.append(info)
                elif kind == "error":
                    tail = "\n".join(r["out"].splitlines()[-40:])
                    raise Inconclusive("TLC could not validate a chunk (%s):\n%s" % (r["error"], tail))
    return found


def explain(ctx, module, invariants, trace_lines, upto):
    """Re-run TLC on the single offending trace without the alias and return the last state text."""
    p = os.path.join(ctx.work, "explain.ndjson")
    with open(p, "w") as f:
        f.writelines(trace_lines[:upto])
    cfg = "SPECIFICATION TraceSpec\nINVARIANTS %s\nCHECK_DEADLOCK FALSE\n" % " ".join(invariants)
    r = tlc(ctx, module, cfg, "explain", env={"TRACE_FILE": p}, workers=1, heap="4g", timeout=300)
    out = r["out"]
    i = out.rfind("\nState ")
    return out[i:i + 6000] if i >= 0 else out[-3000:]


# ------------------------------------------------------------------ verdicts

def strip_runs(line):
    e = json.loads(line)
    e.pop("runs", None)
    return e


def summarize_event(line):
    e = json.loads(line)
    s = {"op": e.get("op"), "c": e.get("c")}
    for k in ("q", "upd", "id", "f", "j", "name", "path"):
        if k in e:
            s[k] = e[k]
    s["outcomes"] = [{"be": r.get("be"), "st": r["res"].get("st"), "err": r["res"].get("err"),
                      "msg": r["res"].get("msg"), "stack": r["res"].get("stack")} for r in e.get("runs", [])]
    return s


def known_match(ctx, info, stage):
    """Return the open known finding this violation matches, if any."""
    ev = json.loads(info["trace"][info["line_in_trace"] - 1])
    for k in ctx.known:
        if k.get("status") != "open" or k.get("property") != ctx.prop:
            continue
        m = k.get("match", {})
        # a finding is identified by what its entry says; an entry with a criterion this matcher does not
        # know (or with none) suppresses nothing
        if not m or any(key not in ("invariant", "profile", "observed_re", "op", "st", "msg_re", "event_re", "line_re") for key in m):
            continue
        if "line_re" in m and not re.search(m["line_re"], info["trace"][info["line_in_trace"] - 1]):
            continue
        if "invariant" in m and m["invariant"] != info["invariant"]:
            continue
        if "profile" in m and json.loads(info["trace"][0]).get("profile") != m["profile"]:
            continue
        if "observed_re" in m and not re.search(m["observed_re"], json.dumps(ev.get("runs", []))):
            continue
        if "op" in m and ev.get("op") not in m["op"]:
            continue
        if "st" in m and not any(r["res"].get("st") in m["st"] for r in ev.get("runs", [])):
            continue
        if "msg_re" in m and not any(re.search(m["msg_re"], r["res"].get("msg") or "") for r in ev.get("runs", [])):
            continue
        if "event_re" in m and not re.search(m["event_re"], json.dumps(strip_runs(info["trace"][info["line_in_trace"] - 1]))):
            continue
        return k
    return None


def report(ctx, info, stage, module, invariants, explain_it=True):
    """Record a violation: write the replay file, print VIOLATION (or KNOWN-FINDING)."""
    k = known_match(ctx, info, stage)
    line = info["trace"][info["line_in_trace"] - 1]
    if k is not None:
        msg = "KNOWN-FINDING: property=%s %s" % (ctx.prop, k["what"])
        if msg not in ctx.known_printed:
            print(msg, flush=True)
            ctx.known_printed.append(msg)
        return
    rdir = os.path.join(os.environ.get("VERIF_REPLAY_DIR") or os.path.join(ctx.root, "replays"), ctx.prop)
    os.makedirs(rdir, exist_ok=True)
    path = os.path.join(rdir, "%s-%s-seed%d-%d.json" % (stage.get("name", "stage"), info["invariant"], ctx.seed,
                                                        len(ctx.violations)))
    head = json.loads(info["trace"][0])
    rep = {
        "property": ctx.prop, "invariant": info["invariant"], "module": module, "invariants": invariants,
        "stage": {k2: v for k2, v in stage.items() if isinstance(v, (str, int, float, list, dict))},
        "seed": ctx.seed, "header": {k2: v for k2, v in head.items() if k2 != "runs"},
        "offending_event": summarize_event(line),
        "line_in_trace": info["line_in_trace"],
        "events": [strip_runs(l) for l in info["trace"][:info["line_in_trace"]]],
        "observed": json.loads(line).get("runs"),
    }
    if explain_it:
        try:
            rep["spec_state_at_violation"] = explain(ctx, module, invariants, info["trace"], info["line_in_trace"])
        except Exception as ex:  # diagnosis only
            rep["spec_state_at_violation"] = "unavailable: %s" % ex
    with open(path, "w") as f:
        json.dump(rep, f, indent=1)
    ctx.violations.append({"replay": path, "invariant": info["invariant"], "event": rep["offending_event"]})
    print("VIOLATION property=%s replay=%s" % (ctx.prop, path), flush=True)
    ctx.log("  invariant %s rejected: %s" % (info["invariant"], json.dumps(rep["offending_event"])[:600]))


# ------------------------------------------------------------------ stages

def stage_trace(ctx, st):
    """Generate executions with a driver profile and validate them."""
    n = st["n"][0] if ctx.tier == "quick" else st["n"][1]
    out = os.path.join(ctx.work, "trace-%s.ndjson" % st["name"])
    stats = os.path.join(ctx.work, "stats-%s.json" % st["name"])
    args = [st.get("cmd", "gen"), "-seed", str(ctx.seed + st.get("seed_off", 0)),
            "-n", str(n), "-backends", st.get("backends", "rotate"), "-out", out, "-stats", stats, "-par", "12"]
    if st.get("cmd", "gen") == "gen":
        args += ["-profile", st["profile"]]
    if "ops" in st:
        args += ["-ops", str(st["ops"])]
    args += [a.replace("{work}", ctx.work) for a in st.get("args", [])]
    msg = run_driver(ctx, args)
    ctx.log(msg.strip().splitlines()[-1] if msg.strip() else "driver done")
    traces = split_traces(out)
    with open(stats) as f:
        sj = json.load(f)
    for k, v in sj.get("outcomes", {}).items():
        ctx.outcomes[k] = ctx.outcomes.get(k, 0) + v
    pk = ctx.extra.setdefault("plan_kinds", {})
    for k, v in sj.get("plan_kinds", {}).items():
        pk[k] = pk.get(k, 0) + v
    ctx.traces += len(traces)
    ctx.events += sj.get("events", 0)
    ctx.evaluations += sj.get("events", 0)
    if traces and len(ctx.samples) < 6:
        t = traces[0]
        for ln in t[1:4]:
            s = summarize_event(ln)
            ctx.samples.append(s)
    module = st.get("module", "TraceL1")
    found = validate_traces(ctx, module, st["invariants"], traces, st["name"], chunk=st.get("chunk", 12),
                            heap=st.get("heap", "4g"))
    ctx.stage_log.append({"stage": st["name"], "profile": st["profile"], "traces": len(traces),
                          "events": sj.get("events", 0), "invariants": st["invariants"], "rejections": len(found)})
    for info in found:
        if len(ctx.violations) >= MAX_REPORTS and known_match(ctx, info, st) is None:
            ctx.extra["further_rejections_not_reported"] = ctx.extra.get("further_rejections_not_reported", 0) + 1
            continue
        report(ctx, info, st, module, st["invariants"])


def spec_hash(ctx, module, cfgname):
    """Hash of a module, everything it EXTENDS / INSTANCEs (transitively, within spec/) and the cfg."""
    import hashlib
    seen, todo = [], [module]
    while todo:
        m = todo.pop()
        p = os.path.join(ctx.spec, m + ".tla")
        if m in seen or not os.path.exists(p):
            continue
        seen.append(m)
        txt = open(p).read()
        for line in re.findall(r"^\s*EXTENDS\s+(.*)$", txt, flags=re.M):
            todo += [x.strip() for x in line.split(",")]
        todo += re.findall(r"INSTANCE\s+(\w+)", txt)
    h = hashlib.sha256()
    for m in sorted(seen):
        h.update(m.encode() + b"\0" + open(os.path.join(ctx.spec, m + ".tla"), "rb").read())
    h.update(open(os.path.join(ctx.spec, cfgname), "rb").read())
    return h.hexdigest()[:24]


def stage_mc(ctx, st):
    """Model-check a configuration of the specification itself.  The result depends on spec/ only
    (never on /repo); successful runs are cached under /verif/.cache keyed by the content of the
    module, its dependencies and the cfg, and evidence marks cached runs as such."""
    cfgname = st["cfg"] if ctx.tier == "quick" or "cfg_thorough" not in st else st["cfg_thorough"]
    with open(os.path.join(ctx.spec, cfgname)) as f:
        cfg = f.read()
    cacheable = not st.get("nocache") and "Emit = TRUE" not in cfg and not os.environ.get("VERIF_NOCACHE")
    cpath = os.path.join(ctx.root, ".cache", "mc-%s-%s.json" % (cfgname.replace(".cfg", ""), spec_hash(ctx, st["module"], cfgname)))
    if cacheable and os.path.exists(cpath):
        with open(cpath) as f:
            c = json.load(f)
        ctx.mc_runs.append(dict(c, cached=True, note="model run cached (it depends on spec/ only)"))
        ctx.states += c["states"]
        ctx.transitions += c["transitions"]
        ctx.log("MC %s/%s: %d distinct states, %d generated, ok (cached model run)" % (st["module"], cfgname, c["states"], c["transitions"]))
        return {"ok": True, "distinct": c["states"], "generated": c["transitions"], "out": "", "wall": c["wall_s"]}
    extra = list(st.get("extra", []))
    r = tlc(ctx, st["module"], cfg, "mc-" + st["name"], workers=st.get("workers", 16), heap=st.get("heap", "8g"),
            timeout=st.get("timeout", 1200), extra=extra)
    ctx.mc_runs.append({"config": cfgname, "module": st["module"], "states": r["distinct"],
                        "transitions": r["generated"], "ok": r["ok"], "wall_s": round(r["wall"], 1)})
    ctx.states += r["distinct"]
    ctx.transitions += r["generated"]
    ctx.log("MC %s/%s: %d distinct states, %d generated, ok=%s (%.1fs)" % (st["module"], cfgname, r["distinct"],
                                                                        r["generated"], r["ok"], r["wall"]))
    if st.get("expect_violation"):
        # vacuity guard: a deliberately broken variant of the model must be refuted by TLC
        if r["violated"] != st["expect_violation"]:
            raise Inconclusive("model variant %s was expected to violate %s; TLC said: %s" % (
                cfgname, st["expect_violation"], r["violated"] or r["error"] or "no error"))
        ctx.mc_runs[-1]["ok"] = True
        ctx.mc_runs[-1]["expected_counterexample"] = st["expect_violation"]
        r["ok"] = True
    if not r["ok"]:
        # a counterexample that exists only in the model is never a violation of the code
        tail = "\n".join(r["out"].splitlines()[-60:])
        raise Inconclusive("model checking of %s did not succeed:\n%s" % (cfgname, tail))
    if cacheable:
        os.makedirs(os.path.dirname(cpath), exist_ok=True)
        tmp = cpath + ".tmp%d" % os.getpid()
        with open(tmp, "w") as f:
            json.dump(ctx.mc_runs[-1], f)
        os.replace(tmp, cpath)
    return r


READ_OPS = {"HasCollection", "ListCollections", "HasIndex", "ListIndexes", "FindById", "FindAll", "ForEach",
            "IterateDocs", "FindFirst", "Count", "Exists", "Derived", "Export"}


EVENT_KEY_ORDER = ["op", "c", "name", "q", "upd", "id", "f", "j", "js", "ids", "docs", "path"]


def canon_event(e):
    """TLC prints record fields in no particular order; the families selected by regular expressions
    (and the shape strata) need one."""
    if not isinstance(e, dict):
        return e
    return {k: e[k] for k in EVENT_KEY_ORDER if k in e} | {k: e[k] for k in sorted(e) if k not in EVENT_KEY_ORDER}


STATE_CORNER = {}   # json of a model state's history -> NilCornerRank of the state it leads to (MC_L1)


def parse_emission(out):
    """STATE / EVENT lines printed by MC_L1 (JSON strings containing JSON)."""
    states, events = [], []
    for line in out.splitlines():
        if line.startswith('"STATE ') or line.startswith('"EVENT '):
            try:
                txt = json.loads(line)
            except ValueError:
                continue
            kind, payload = txt.split(" ", 1)
            obj = json.loads(payload)
            if kind == "STATE":
                hist = [canon_event(x) for x in obj["hist"]]
                if hist not in states:      # several workers may report the same state
                    states.append(hist)
                    STATE_CORNER[json.dumps(hist)] = obj.get("corner", 0)
            else:
                events.append(canon_event(obj))
    return states, events


def emission(ctx, st):
    """States and operation instances of the model.  They depend only on the specification (never
    on /repo), so the TLC run is cached under /verif/.cache, keyed by the content of spec/ and the cfg."""
    import hashlib
    cfgname = st["cfg"] if ctx.tier == "quick" or "cfg_thorough" not in st else st["cfg_thorough"]
    key = spec_hash(ctx, st["module"], cfgname)
    cdir = os.path.join(ctx.root, ".cache")
    cpath = os.path.join(cdir, "emission-%s-%s.json" % (cfgname.replace(".cfg", ""), key))
    if os.path.exists(cpath) and not os.environ.get("VERIF_NOCACHE"):
        with open(cpath) as f:
            c = json.load(f)
        ctx.mc_runs.append({"config": cfgname, "module": st["module"], "states": c["distinct"], "transitions": c["generated"],
                            "ok": True, "cached": True, "wall_s": c["wall_s"],
                            "note": "model run cached (it depends on spec/ only); counts are those of the cached run"})
        ctx.states += c["distinct"]
        ctx.transitions += c["generated"]
        ctx.log("MC %s/%s: %d distinct states, %d generated (cached model run)" % (st["module"], cfgname, c["distinct"], c["generated"]))
        sts = [[canon_event(x) for x in h] for h in c["states"]]
        for h, k in zip(sts, c.get("corner", [])):
            STATE_CORNER[json.dumps(h)] = k
        return sts, [canon_event(e) for e in c["events"]]
    r = stage_mc(ctx, dict(st, kind="mc"))
    states, events = parse_emission(r["out"])
    if not states or not events:
        raise Inconclusive("MC run emitted no states/events")
    os.makedirs(cdir, exist_ok=True)
    tmp = cpath + ".tmp%d" % os.getpid()
    with open(tmp, "w") as f:
        json.dump({"states": states, "events": events, "distinct": r["distinct"], "generated": r["generated"],
                   "corner": [STATE_CORNER.get(json.dumps(h), 0) for h in states], "wall_s": round(r["wall"], 1)}, f)
    os.replace(tmp, cpath)
    return states, events


def conc_emission(ctx, st):
    """Terminal states of CloverConc (MC_ConcEmit): cached like the L1 emission."""
    cfgname = st["cfg"]
    key = spec_hash(ctx, st["module"], cfgname)
    cdir = os.path.join(ctx.root, ".cache")
    cpath = os.path.join(cdir, "concemit-%s-%s.json" % (cfgname.replace(".cfg", ""), key))
    if os.path.exists(cpath) and not os.environ.get("VERIF_NOCACHE"):
        with open(cpath) as f:
            c = json.load(f)
        ctx.mc_runs.append({"config": cfgname, "module": st["module"], "states": c["distinct"], "transitions": c["generated"],
                            "ok": True, "cached": True, "wall_s": c["wall_s"],
                            "note": "model run cached (it depends on spec/ only); counts are those of the cached run"})
        ctx.states += c["distinct"]
        ctx.transitions += c["generated"]
        ctx.log("MC %s/%s: %d distinct states, %d generated (cached model run)" % (st["module"], cfgname, c["distinct"], c["generated"]))
        return c["records"]
    r = stage_mc(ctx, dict(st, kind="mc", nocache=True))
    recs = []
    for line in r["out"].splitlines():
        if line.startswith('"CONC '):
            try:
                recs.append(json.loads(json.loads(line)[5:]))
            except ValueError:
                continue
    if not recs:
        raise Inconclusive("MC_ConcEmit emitted no behaviours")
    os.makedirs(cdir, exist_ok=True)
    tmp = cpath + ".tmp%d" % os.getpid()
    with open(tmp, "w") as f:
        json.dump({"records": recs, "distinct": r["distinct"], "generated": r["generated"], "wall_s": round(r["wall"], 1)}, f)
    os.replace(tmp, cpath)
    return recs


def stage_edges(ctx, st):
    """Direction A (DESIGN.md 5.3): TLC enumerates the reachable graph of the abstract database in a
    small scope; its edges (distinct states x operation instances) are executed on the real code
    and the recorded executions are validated by TLC."""
    import random
    states, events = emission(ctx, st)
    quick = ctx.tier == "quick"
    rng = random.Random(ctx.seed * 7919 + 17)
    ops = st.get("ops")              # restrict to these operation kinds (None = all)
    evs = [e for e in events if ops is None or e["op"] in ops]
    if st.get("event_re"):
        evs = [e for e in evs if re.search(st["event_re"], json.dumps(e))]
    reads = [e for e in evs if e["op"] in READ_OPS]
    writes = [e for e in evs if e["op"] not in READ_OPS]
    nstates = st["states"][0] if quick else st["states"][1]
    nreads = st["reads"][0] if quick else st["reads"][1]
    nwrites = st["writes"][0] if quick else st["writes"][1]
    pool = states
    if st.get("state_pred") == "nil_corner":
        # states where the indexed field x is absent from one document and explicitly nil in another:
        # the index holds both under the nil key, the criteria tell them apart
        def nil_corner(h):
            if not any(e.get("op") == "CreateIndex" and e.get("f") == [120] for e in h):
                return False
            docs = [d for e in h if e.get("op") in ("Insert", "Save", "ReplaceById") for d in e.get("docs", [])]
            lack = any(not any(p[0] == [120] for p in d[1]) for d in docs)
            nil = any(any(p[0] == [120] and p[1] == ["nil"] for p in d[1]) for d in docs)
            return lack and nil
        # the model says which states end in the corner (the history alone does not: later operations rewrite
        # documents); those in which the document that lacks x comes first in the index are taken first
        first = [h for h in states if STATE_CORNER.get(json.dumps(h), 0) == 2]
        other = [h for h in states if STATE_CORNER.get(json.dumps(h), 0) == 1]
        if first or other:
            rng.shuffle(first)
            rng.shuffle(other)
            half = max(1, nstates // 2) if nstates > 0 else len(first)
            pool = first[:half] + other[:max(0, nstates - min(half, len(first)))] if nstates > 0 else first + other
        else:
            pool = [h for h in states if nil_corner(h)]
        if not pool:
            raise Inconclusive("no model state has the nil corner")
    if st.get("rich_states"):
        # the states with the most content (documents, indexes): where planner cells are not vacuous
        pool = sorted(states, key=lambda h: -len(json.dumps(h)))[:st["rich_states"]]
    sel_states = pool if nstates <= 0 or nstates >= len(pool) else rng.sample(pool, nstates)

    # stratified sampling: operation instances are grouped by shape (criteria structure with the
    # literals reduced to their kind, sort / window kind), and shapes are drawn uniformly, so that
    # rare shapes (negation chains, bounds on nil, ...) are as likely to be exercised as common ones
    def shape(e):
        t = json.dumps(e.get("q", [])) + "|" + json.dumps(e.get("upd", "")) + "|" + e["op"]
        t = re.sub(r'\["num", \d+, "[a-z-]+"\]', "N", t)
        t = re.sub(r'\["str", \[[0-9, ]*\]\]', "S", t)
        return t

    def buckets(evs_):
        b = {}
        for e in evs_:
            b.setdefault(shape(e), []).append(e)
        return list(b.values())

    rbuckets, wbuckets = buckets(reads), buckets(writes)

    def draw(bk, k):
        if k <= 0 or k >= sum(len(x) for x in bk):
            return [e for x in bk for e in x]
        out = []
        order = list(range(len(bk)))
        while len(out) < k:
            rng.shuffle(order)
            for i in order:
                out.append(rng.choice(bk[i]))
                if len(out) >= k:
                    break
        return out
    inp = os.path.join(ctx.work, "edges-%s.ndjson" % st["name"])
    nh = ne = 0
    with open(inp, "w") as f:
        for hist in sel_states:
            rs = draw(rbuckets, nreads) if reads else []
            ws = draw(wbuckets, nwrites) if writes else []
            # the reads on one state are spread over several histories: the replay gives every history collection
            # names of another length (keys, buffers and whatever is derived from names then vary in size too)
            parts = max(1, min(st.get("split", 6), len(rs) // 8))
            for cp in range(st.get("copies", 0) if rs else 0):
                # ... or replayed as they are in `copies` histories, which the replay spreads over a grid of name
                # lengths and readings of the model's numbers
                f.write(json.dumps({"op": "Reset", "numTable": "general", "timeTable": "general"}) + "\n")
                for e in hist:
                    f.write(json.dumps(dict(e, audit=True)) + "\n")
                for e in rs:
                    f.write(json.dumps(dict(e, audit=False)) + "\n")
                nh += 1
                ne += len(hist) + len(rs)
            for part in range(parts if rs and not st.get("copies") else 0):
                f.write(json.dumps({"op": "Reset", "numTable": "general", "timeTable": "general"}) + "\n")
                for e in hist:
                    f.write(json.dumps(dict(e, audit=True)) + "\n")
                chunk = rs[part::parts]
                for e in chunk:
                    f.write(json.dumps(dict(e, audit=False)) + "\n")
                nh += 1
                ne += len(hist) + len(chunk)
            for w in ws:
                f.write(json.dumps({"op": "Reset", "numTable": "general", "timeTable": "general"}) + "\n")
                for e in hist:
                    f.write(json.dumps(dict(e, audit=True)) + "\n")
                f.write(json.dumps(dict(w, audit=True)) + "\n")
                nh += 1
                ne += len(hist) + 1
    out = os.path.join(ctx.work, "edges-%s-trace.ndjson" % st["name"])
    stats = os.path.join(ctx.work, "edges-%s-stats.json" % st["name"])
    msg = run_driver(ctx, ["replay", "-in", inp, "-out", out, "-backends", st.get("backends", "bolt"),
                           "-par", "14", "-stats", stats] + (["-grid"] if st.get("copies") else ["-rename", str(ctx.seed + st.get("seed_off", 0))]))
    ctx.log("edges: %d model states, %d operation instances (%d reads, %d writes) -> %d histories, %d events; %s"
            % (len(states), len(events), len(reads), len(writes), nh, ne, msg.strip().splitlines()[-1]))
    traces = split_traces(out)
    with open(stats) as f:
        sj = json.load(f)
    for k, v in sj.get("outcomes", {}).items():
        ctx.outcomes[k] = ctx.outcomes.get(k, 0) + v
    pk = ctx.extra.setdefault("plan_kinds", {})
    for k, v in sj.get("plan_kinds", {}).items():
        pk[k] = pk.get(k, 0) + v
    ctx.traces += len(traces)
    ctx.events += sj.get("events", 0)
    ctx.evaluations += sj.get("events", 0)
    ctx.extra["tlc_generated_edges_replayed"] = ctx.extra.get("tlc_generated_edges_replayed", 0) + ne
    ctx.extra["model_graph"] = {"distinct_states": len(states), "operation_instances": len(events),
                                "shapes": len(rbuckets) + len(wbuckets),
                                "edges": len(states) * len(events),
                                "exhaustive": (not quick) and nstates <= 0 and nreads <= 0 and nwrites <= 0}
    if traces and len(ctx.samples) < 8:
        for ln in traces[-1][1:3]:
            ctx.samples.append(summarize_event(ln))
    module = st.get("trace_module", "TraceL1")
    found = validate_traces(ctx, module, st["invariants"], traces, st["name"], chunk=st.get("chunk", 40), par=14)
    ctx.stage_log.append({"stage": st["name"], "kind": "tlc-generated edges", "histories": nh, "events": ne,
                          "invariants": st["invariants"], "rejections": len(found)})
    for info in found:
        if len(ctx.violations) >= MAX_REPORTS and known_match(ctx, info, st) is None:
            ctx.extra["further_rejections_not_reported"] = ctx.extra.get("further_rejections_not_reported", 0) + 1
            continue
        report(ctx, info, st, module, st["invariants"])


def stage_aux(ctx, st):
    """Self-contained observations (driver aux -kind K) validated by TraceAux.tla; every line is
    independent, so each line is treated as a trace of its own."""
    n = st["n"][0] if ctx.tier == "quick" else st["n"][1]
    reps = st.get("reps", (1, 1))
    reps = reps[0] if ctx.tier == "quick" else reps[1]
    all_lines = []
    for rep in range(reps):
        out = os.path.join(ctx.work, "aux-%s-%d.ndjson" % (st["name"], rep))
        stats = os.path.join(ctx.work, "aux-%s-%d.json" % (st["name"], rep))
        seed = ctx.seed + st.get("seed_off", 0) + rep * 101
        msg = run_driver(ctx, ["aux", "-kind", st["aux"], "-seed", str(seed), "-n", str(n), "-out", out, "-stats", stats])
        ctx.log(msg.strip().splitlines()[-1])
        with open(out) as f:
            lines = [ln for ln in f if ln.strip() and '"kind":"Reset"' not in ln[:40]]
        with open(stats) as f:
            sj = json.load(f)
        for k, v in sj.get("outcomes", {}).items():
            if k != "lines":
                ctx.outcomes[st["aux"] + ":" + k] = ctx.outcomes.get(st["aux"] + ":" + k, 0) + v
        for ln in lines:
            all_lines.append((seed, ln))
    ctx.traces += len(all_lines)
    ctx.events += len(all_lines)
    ctx.evaluations += sum(v for k, v in ctx.outcomes.items() if k.startswith(st["aux"] + ":") and "/" not in k.split(":", 1)[1]) or len(all_lines)
    if all_lines and len(ctx.samples) < 8:
        ctx.samples.append(json.loads(all_lines[0][1][:200000]) if len(all_lines[0][1]) < 4000 else {"kind": st["aux"], "line_bytes": len(all_lines[0][1])})
    # lines that are instances of an open known finding are validated through one representative
    # each (it must still be rejected), the others are set aside so that they cannot hide anything else
    known_lines = {}
    rest = []
    for _, ln in all_lines:
        k = aux_known_match(ctx, ln)
        if k is None:
            rest.append(ln)
        else:
            known_lines.setdefault(k["what"], []).append(ln)
    traces = [[ln] for ln in rest] + [[lns[0]] for lns in known_lines.values()]
    ctx.extra["known_finding_instances"] = {w[:60]: len(lns) for w, lns in known_lines.items()}
    found = validate_traces(ctx, st.get("module", "TraceAux"), st.get("invariants", ["InvAux"]), traces, st["name"],
                            chunk=st.get("chunk", 400), par=12, heap=st.get("heap", "6g"))
    ctx.stage_log.append({"stage": st["name"], "aux": st["aux"], "lines": len(all_lines), "rejections": len(found)})
    if st.get("advisory"):
        # model-drift measurement: how often the planner *model* disagrees with the real planner.
        # A disagreement is not a verdict about the code (another valid plan is allowed).
        first = json.loads(found[0]["trace"][0]) if found else {}
        ctx.extra.setdefault("model_drift", []).append({
            "stage": st["name"], "lines": len(all_lines), "disagreements_found": len(found),
            "first": ({k: first.get(k) for k in ("crit", "op", "pre", "reads", "writes", "be") if k in first} if found else None)})
        if found:
            ctx.log("  advisory: planner model and real planner disagree on %d sampled line(s)" % len(found))
        return
    for info in found:
        if len(ctx.violations) >= MAX_REPORTS:
            ctx.extra["further_rejections_not_reported"] = ctx.extra.get("further_rejections_not_reported", 0) + 1
            continue
        line = info["trace"][0]
        k = aux_known_match(ctx, line)
        if k is not None:
            msg = "KNOWN-FINDING: property=%s %s" % (ctx.prop, k["what"])
            if msg not in ctx.known_printed:
                print(msg, flush=True)
                ctx.known_printed.append(msg)
            continue
        rdir = os.path.join(os.environ.get("VERIF_REPLAY_DIR") or os.path.join(ctx.root, "replays"), ctx.prop)
        os.makedirs(rdir, exist_ok=True)
        path = os.path.join(rdir, "%s-seed%d-%d.json" % (st["name"], ctx.seed, len(ctx.violations)))
        ev = json.loads(line)
        rep = {"property": ctx.prop, "invariant": "InvAux", "module": "TraceAux", "replay_fn": "aux",
               "stage": {k2: v for k2, v in st.items() if isinstance(v, (str, int, float, list, dict))},
               "tier": ctx.tier, "seed": ctx.seed, "line": ev}
        with open(path, "w") as f:
            json.dump(rep, f, indent=1)
        ctx.violations.append({"replay": path, "invariant": "InvAux", "event": {"kind": ev.get("kind")}})
        print("VIOLATION property=%s replay=%s" % (ctx.prop, path), flush=True)
        brief = {k2: v for k2, v in ev.items() if k2 not in ("cmp", "key", "pfx", "vals", "universe")}
        ctx.log("  TraceAux rejected: %s" % json.dumps(brief)[:700])


def aux_known_match(ctx, line):
    for k in ctx.known:
        if k.get("status") != "open" or k.get("property") != ctx.prop:
            continue
        m = k.get("match", {})
        if "line_re" in m and re.search(m["line_re"], line):
            return k
    return None


LIN_CFG = "SPECIFICATION LinSpec\nCONSTRAINT HighWater\nPOSTCONDITION Accepted\nCHECK_DEADLOCK FALSE\n"


def split_histories(path):
    hs = []
    with open(path) as f:
        for line in f:
            if not line.strip():
                continue
            if '"t":"reset"' in line:
                hs.append([])
            hs[-1].append(line)
    return hs


def stage_lin(ctx, st):
    """C07: concurrent histories of the real code, linearizability decided by TLC (TraceLin)."""
    n = st["n"][0] if ctx.tier == "quick" else st["n"][1]
    out = os.path.join(ctx.work, "conc-%s.ndjson" % st["name"])
    stats = os.path.join(ctx.work, "conc-%s.json" % st["name"])
    args = ["conc", "-seed", str(ctx.seed + st.get("seed_off", 0)), "-n", str(n), "-out", out, "-stats", stats,
            "-backends", st.get("backends", "rotate"), "-maxg", str(st.get("maxg", 4)), "-ops", str(st.get("ops", 3)), "-par", "4"]
    if st.get("gated"):
        args.append("-gated")
    if st.get("raw"):
        args.append("-raw")
    if st.get("family"):
        args += ["-family", st["family"]]
    if st.get("sched") or st.get("sched_sim"):
        # behaviours of CloverConc generated by TLC, replayed on the real code with gates at the
        # store's Begin and Commit / Rollback.  Exhaustive emissions are cached (they depend on spec/
        # only); simulated ones (three goroutines) are drawn afresh with the check's seed.
        recs = []
        for cfg in st.get("sched", []):
            recs += conc_emission(ctx, {"module": "MC_ConcEmit", "cfg": cfg, "workers": 8, "heap": "8g", "name": "conc-emit"})
        for cfg in st.get("sched_sim", []):
            with open(os.path.join(ctx.spec, cfg)) as f:
                cfgtext = f.read()
            per = max(1, n // 4)
            r = tlc(ctx, "MC_ConcEmit", cfgtext, "concsim-" + cfg.replace(".cfg", ""), workers=4, heap="8g", timeout=900,
                    extra=["-simulate", "num=%d" % per, "-depth", "10", "-seed", str(ctx.seed + st.get("seed_off", 0))])
            got = []
            for line in r["out"].splitlines():
                if line.startswith('"CONC '):
                    try:
                        got.append(json.loads(json.loads(line)[5:]))
                    except ValueError:
                        pass
            if not got or "Error:" in r["out"]:
                raise Inconclusive("TLC simulation of %s produced no behaviours:\n%s" % (cfg, r["out"][-1500:]))
            ctx.mc_runs.append({"config": cfg, "module": "MC_ConcEmit", "mode": "simulate", "states": r["generated"], "transitions": r["generated"],
                                "ok": True, "wall_s": round(r["wall"], 1), "behaviours": len(got)})
            recs += got
        # the schedules the repairs are there for: behaviours that the model with the pre-repair write
        # sets marks non-linearizable (exhaustive for two goroutines, simulated for three); all replayed
        risky = []
        for cfg in st.get("sched_risky", []):
            risky += [r for r in conc_emission(ctx, {"module": "MC_ConcEmit", "cfg": cfg, "workers": 8, "heap": "8g", "name": "conc-emit"})
                      if r.get("lin") is False]
        for cfg, num in st.get("sched_sim_risky", []):
            with open(os.path.join(ctx.spec, cfg)) as f:
                cfgtext = f.read()
            r = tlc(ctx, "MC_ConcEmit", cfgtext, "concsimrisky-" + cfg.replace(".cfg", ""), workers=8, heap="8g", timeout=900,
                    extra=["-simulate", "num=%d" % (num // 8), "-depth", "10", "-seed", str(ctx.seed + st.get("seed_off", 0))])
            seen = set()
            total = 0
            for line in r["out"].splitlines():
                if line.startswith('"CONC '):
                    total += 1
                    if 'lin\\":false' in line and line not in seen:
                        seen.add(line)
                        risky.append(json.loads(json.loads(line)[5:]))
            if total == 0 or "Error:" in r["out"]:
                raise Inconclusive("TLC simulation of %s produced no behaviours:\n%s" % (cfg, r["out"][-1500:]))
            ctx.mc_runs.append({"config": cfg, "module": "MC_ConcEmit", "mode": "simulate", "states": r["generated"], "transitions": r["generated"],
                                "ok": True, "wall_s": round(r["wall"], 1), "behaviours": total, "marked_risky": len(seen)})
        for r in risky:
            r["risky"] = True
        import random
        rng = random.Random(ctx.seed * 104729 + st.get("seed_off", 0))

        def readonly(op):
            return op[0] in ("Find", "Count")

        def forceable(r):
            # bbolt: a writer whose commit has to remap the data file waits for the read transactions
            # that are open; a schedule that keeps an older reader open across a writer's whole
            # transaction cannot be forced with gates (it is not a behaviour bbolt has)
            if r["be"] != "bolt":
                return True
            G = len(r["progs"])
            for a in range(G):
                for b in range(G):
                    if a != b and readonly(r["progs"][a]) and not readonly(r["progs"][b]) \
                            and r["t0"][a] < r["t0"][b] and r["t1"][b] < r["t1"][a]:
                        return False
            return True

        def overlapping(r):
            G = len(r["progs"])
            return any(not (r["t1"][a] < r["t0"][b] or r["t1"][b] < r["t0"][a]) for a in range(G) for b in range(a + 1, G))
        recs = [r for r in recs if forceable(r)]
        concurrent = [r for r in recs if overlapping(r)]
        serial = [r for r in recs if not overlapping(r)] if n >= len(recs) else []
        pick = concurrent if n >= len(concurrent) else rng.sample(concurrent, n)
        pick = pick + serial + risky
        spath = os.path.join(ctx.work, "sched-%s.json" % st["name"])
        with open(spath, "w") as f:
            json.dump(pick, f)
        args += ["-sched", spath]
        ctx.log("sched: %d model behaviours (%d with overlapping transactions), %d replayed, of which %d marked risky by the pre-repair model" % (
            len(recs), len(concurrent), len(pick), len(risky)))
        ctx.extra.setdefault("model_behaviours", {})[st["name"]] = {"terminal_states": len(recs), "concurrent": len(concurrent),
                                                                     "replayed": len(pick), "risky": len(risky)}
    msg = run_driver(ctx, args)
    ctx.log(msg.strip().splitlines()[-1])
    with open(stats) as f:
        sj = json.load(f)
    for k, v in sj.get("outcomes", {}).items():
        ctx.outcomes[k] = ctx.outcomes.get(k, 0) + v
    if st.get("sched") or st.get("sched_sim"):
        oc = sj.get("outcomes", {})
        if oc.get("sched/stuck", 0) > max(2, oc.get("sched/replayed", 0) // 50):
            raise Inconclusive("%d scheduled replays got stuck" % oc.get("sched/stuck", 0))
        if oc.get("sched/replayed", 0) == 0:
            raise Inconclusive("no scheduled replay completed")
        ctx.log("sched: replayed=%d model-agrees=%d model-drift=%d (advisory) stuck=%d extra-transactions=%d" % (
            oc.get("sched/replayed", 0), oc.get("sched/model-agrees", 0), oc.get("sched/model-drift", 0),
            oc.get("sched/stuck", 0), oc.get("sched/extra-transactions", 0)))
    hs = split_histories(out)
    ctx.traces += len(hs)
    ctx.events += sum(len(h) for h in hs)
    ctx.evaluations += sum(v for k, v in sj.get("outcomes", {}).items() if "/" in k)
    if hs and len(ctx.samples) < 8:
        for ln in hs[0][4:7]:
            e = json.loads(ln)
            e.pop("res", None)
            ctx.samples.append(e)
    chunk = st.get("chunk", 10)
    groups = [hs[i:i + chunk] for i in range(0, len(hs), chunk)]
    rejected = []

    def work(gi, group):
        out_local = []
        group = list(group)
        rounds = 0
        while group:
            rounds += 1
            lines = [ln for h in group for ln in h]
            p = os.path.join(ctx.work, "lin-%s-%d-%d.ndjson" % (st["name"], gi, rounds))
            with open(p, "w") as f:
                f.writelines(lines)
            r = tlc(ctx, "TraceLin", LIN_CFG, "lin-%s-%d-%d" % (st["name"], gi, rounds), env={"TRACE_FILE": p},
                    workers=1, heap="6g", timeout=st.get("timeout", 600), deque=True)
            m = re.search(r'<<"HIGHWATER", (\d+), (\d+)>>', r["out"])
            if not m or r["rc"] == 124:
                out_local.append(("error", r, None))
                break
            hw, total = int(m.group(1)), int(m.group(2))
            if hw == total + 1 and r["ok"]:
                out_local.append(("ok", r, None))
                break
            # the history holding line hw could not be explained
            acc = 0
            for hi, h in enumerate(group):
                if hw <= acc + len(h):
                    out_local.append(("reject", r, {"history": h, "line": hw - acc}))
                    group = group[:hi] + group[hi + 1:]
                    break
                acc += len(h)
            else:
                out_local.append(("error", r, None))
                break
            if rounds > 4:
                break
        return out_local

    with cf.ThreadPoolExecutor(max_workers=8) as ex:
        futs = [ex.submit(work, gi, g) for gi, g in enumerate(groups)]
        for fu in futs:
            for kind, r, info in fu.result():
                ctx.states += r["distinct"]
                ctx.transitions += r["generated"]
                if kind == "reject":
                    rejected.append(info)
                elif kind == "error":
                    raise Inconclusive("TLC could not decide a concurrent history:\n" + "\n".join(r["out"].splitlines()[-30:]))
    ctx.stage_log.append({"stage": st["name"], "kind": "linearizability", "histories": len(hs), "rejections": len(rejected)})
    for info in rejected:
        if len(ctx.violations) >= MAX_REPORTS:
            ctx.extra["further_rejections_not_reported"] = ctx.extra.get("further_rejections_not_reported", 0) + 1
            continue
        rdir = os.path.join(os.environ.get("VERIF_REPLAY_DIR") or os.path.join(ctx.root, "replays"), ctx.prop)
        os.makedirs(rdir, exist_ok=True)
        path = os.path.join(rdir, "%s-seed%d-%d.json" % (st["name"], ctx.seed, len(ctx.violations)))
        stuck = json.loads(info["history"][min(info["line"], len(info["history"])) - 1])
        with open(path, "w") as f:
            json.dump({"property": ctx.prop, "replay_fn": "lin", "seed": ctx.seed, "stage": {k: v for k, v in st.items() if k != "fn"},
                       "tier": ctx.tier, "note": "no linearization explains the history beyond this line",
                       "stuck_at_line": info["line"], "stuck_event": stuck,
                       "history": [json.loads(x) for x in info["history"]]}, f, indent=1)
        ctx.violations.append({"replay": path, "invariant": "Linearizable", "event": {"op": stuck.get("op"), "t": stuck.get("t")}})
        print("VIOLATION property=%s replay=%s" % (ctx.prop, path), flush=True)
        stuck.pop("audit", None)
        ctx.log("  not linearizable; the search cannot get past: %s" % json.dumps(stuck)[:500])


def stage_race(ctx, st):
    """C07, data-race clause: the same concurrent drivers under the Go race detector."""
    n = st["n"][0] if ctx.tier == "quick" else st["n"][1]
    env = dict(os.environ)
    env.update(GOENV)
    out = os.path.join(ctx.work, "driver-race")
    hdir = getattr(ctx, "harness_dir", os.path.join(ctx.root, "harness"))
    r = subprocess.run(["go", "build", "-race", "-tags", "verif", "-o", out, "."], cwd=hdir, env=env,
                       stdout=subprocess.PIPE, stderr=subprocess.STDOUT, text=True)
    if r.returncode != 0:
        raise Inconclusive("race build failed: " + r.stdout[-2000:])
    logp = os.path.join(ctx.work, "racelog")
    env["GORACE"] = "halt_on_error=0 log_path=%s" % logp
    r = subprocess.run([out, "conc", "-seed", str(ctx.seed + 77), "-n", str(n), "-maxg", str(st.get("maxg", 6)), "-ops", "4",
                        "-out", os.path.join(ctx.work, "race.ndjson"), "-par", "4"], cwd=ctx.work, env=env,
                       stdout=subprocess.PIPE, stderr=subprocess.STDOUT, text=True, timeout=1500)
    if r.returncode not in (0, 66):
        raise Inconclusive("race run failed: " + r.stdout[-2000:])
    ctx.log("race: " + (r.stdout.strip().splitlines() or ["?"])[-1])
    reports = []
    for fn in os.listdir(ctx.work):
        if fn.startswith("racelog"):
            txt = open(os.path.join(ctx.work, fn), errors="replace").read()
            for blk in txt.split("=================="):
                if "DATA RACE" in blk:
                    reports.append(blk)
    clover = [b for b in reports if "github.com/ostafen/clover/v2" in b]
    ctx.extra["race_detector"] = {"histories": n, "reports": len(reports), "reports_in_clover": len(clover)}
    ctx.evaluations += n
    ctx.stage_log.append({"stage": st["name"], "kind": "race detector", "histories": n, "reports": len(reports)})
    if clover:
        rdir = os.path.join(os.environ.get("VERIF_REPLAY_DIR") or os.path.join(ctx.root, "replays"), ctx.prop)
        os.makedirs(rdir, exist_ok=True)
        path = os.path.join(rdir, "race-seed%d.json" % ctx.seed)
        with open(path, "w") as f:
            json.dump({"property": ctx.prop, "replay_fn": "race", "seed": ctx.seed, "stage": {k: v for k, v in st.items() if k != "fn"},
                       "tier": ctx.tier, "report": clover[0][:6000]}, f, indent=1)
        ctx.violations.append({"replay": path, "invariant": "NoDataRace", "event": {"race": True}})
        print("VIOLATION property=%s replay=%s" % (ctx.prop, path), flush=True)
        ctx.log("  data race: " + " | ".join(l.strip() for l in clover[0].splitlines()[1:8]))


def stage_apalache(ctx, st):
    """Symbolic check of a self-contained module with Apalache (bounded data, unbounded byte values).
    Depends on spec/ only: cached like the TLC model runs."""
    import hashlib
    src = open(os.path.join(ctx.spec, st["module"] + ".tla"), "rb").read()
    key = hashlib.sha256(src + json.dumps([st["init"], st["inv"]]).encode()).hexdigest()[:24]
    cpath = os.path.join(ctx.root, ".cache", "apalache-%s-%s-%s.json" % (st["module"], st["init"], key))
    expect = bool(st.get("expect_violation"))
    if os.path.exists(cpath) and not os.environ.get("VERIF_NOCACHE"):
        c = json.load(open(cpath))
        ctx.mc_runs.append(dict(c, cached=True, note="symbolic run cached (it depends on spec/ only)"))
        ctx.log("Apalache %s %s/%s: %s (cached)" % (st["module"], st["init"], st["inv"], c["outcome"]))
        return c
    d = os.path.join(ctx.work, "apalache-" + st["name"])
    os.makedirs(d, exist_ok=True)
    shutil.copyfile(os.path.join(ctx.spec, st["module"] + ".tla"), os.path.join(d, st["module"] + ".tla"))
    t0 = time.time()
    r = subprocess.run(["timeout", str(st.get("timeout", 900)), "apalache-mc", "check", "--init=" + st["init"], "--next=Next",
                        "--inv=" + st["inv"], "--length=0", st["module"] + ".tla"], cwd=d, stdout=subprocess.PIPE,
                       stderr=subprocess.STDOUT, text=True)
    out = r.stdout
    if "The outcome is: NoError" in out:
        outcome = "NoError"
    elif "state invariant" in out and "violated" in out:
        outcome = "Violated"
    else:
        raise Inconclusive("Apalache gave no verdict on %s:\n%s" % (st["module"], out[-1500:]))
    if (outcome == "Violated") != expect:
        raise Inconclusive("Apalache: %s/%s of %s is %s, expected %s (the specification itself is broken)" % (
            st["init"], st["inv"], st["module"], outcome, "a violation" if expect else "no error"))
    c = {"config": "%s --init=%s --inv=%s --length=0" % (st["module"], st["init"], st["inv"]), "module": st["module"], "engine": "apalache",
         "outcome": outcome, "expected_violation": expect, "ok": True, "states": 0, "transitions": 0, "wall_s": round(time.time() - t0, 1)}
    os.makedirs(os.path.dirname(cpath), exist_ok=True)
    with open(cpath + ".tmp%d" % os.getpid(), "w") as f:
        json.dump(c, f)
    os.replace(cpath + ".tmp%d" % os.getpid(), cpath)
    ctx.mc_runs.append(c)
    ctx.log("Apalache %s %s/%s: %s (%.1fs)" % (st["module"], st["init"], st["inv"], outcome, c["wall_s"]))
    return c


def stage_custom(ctx, st):
    return st["fn"](ctx, st)


STAGES = {"trace": stage_trace, "mc": stage_mc, "custom": stage_custom, "edges": stage_edges, "aux": stage_aux,
          "lin": stage_lin, "race": stage_race, "apalache": stage_apalache}


# ------------------------------------------------------------------ evidence

def write_evidence(ctx, plan, status):
    distinct = set()
    for k, v in ctx.outcomes.items():
        distinct.add(k)
    cov = {
        "states": ctx.states,
        "transitions": ctx.transitions,
        "traces_validated_against_impl": ctx.traces,
        "samples": ctx.samples[:8] if ctx.samples else [{"note": "no sample recorded"}],
        "evaluations": max(ctx.evaluations, 0),
        "distinct_nontrivial": len(distinct) + int(ctx.extra.get("distinct_extra", 0)),
        "rule": plan.get("rule", "evaluations = public calls executed against the real code and judged by TLC; "
                                  "distinct_nontrivial = distinct (operation, outcome class, error class) tuples observed"),
        "events_validated": ctx.events,
        "mc_runs": ctx.mc_runs,
        "stages": ctx.stage_log,
        "outcome_classes": dict(sorted(ctx.outcomes.items())),
        "known_findings_printed": ctx.known_printed,
        "status": status,
    }
    for k, v in ctx.extra.items():
        if k != "distinct_extra":
            cov[k] = v
    ev = {
        "property_id": ctx.prop, "tier": ctx.tier, "seed": ctx.seed, "level": plan["level"],
        "coverage": cov,
        "assumptions": plan.get("assumptions", []) + ctx.assumptions,
        "wall_s": round(time.time() - ctx.t0, 1),
        "violations": len(ctx.violations),
    }
    evdir = os.environ.get("VERIF_EVIDENCE_DIR", os.path.join(ctx.root, "evidence"))
    os.makedirs(evdir, exist_ok=True)
    with open(os.path.join(evdir, ctx.prop + ".json"), "w") as f:
        json.dump(ev, f, indent=1)


# ------------------------------------------------------------------ entry points

def run_check(root, prop, tier, seed, PLANS):
    plan = PLANS[prop]
    ctx = Ctx(root, prop, tier, seed)
    status = "ok"
    rc = 0
    try:
        build_driver(ctx)
        for st in plan["stages"]:
            if st.get("tier") == "thorough" and tier != "thorough":
                continue
            if st.get("tier") == "quick" and tier != "quick":
                continue
            STAGES[st["kind"]](ctx, st)
        if ctx.violations:
            rc, status = 1, "violations"
    except SutCrash as ex:
        # a panic or fatal error (concurrent map access, stack overflow) outside any call the harness can guard,
        # raised in frames of the code under test.  Every property states what calls return; a call that takes
        # the process down returned nothing.  It is a verdict only if it happens again when the same driver
        # command is repeated.
        again = subprocess.run([ctx.driver] + ex.cmd_args, cwd=ctx.work, env=dict(os.environ, **GOENV), stdout=subprocess.PIPE,
                               stderr=subprocess.STDOUT, text=True)
        if again.returncode != 0 and ("panic:" in again.stdout or "fatal error:" in again.stdout):
            rdir = os.path.join(os.environ.get("VERIF_REPLAY_DIR") or os.path.join(ctx.root, "replays"), ctx.prop)
            os.makedirs(rdir, exist_ok=True)
            path = os.path.join(rdir, "crash-seed%d.json" % ctx.seed)
            with open(path, "w") as f:
                json.dump({"property": ctx.prop, "replay_fn": "drivercrash", "seed": ctx.seed, "tier": ctx.tier,
                           "driver_args": ex.cmd_args, "note": "the code under test panicked in a goroutine of its own and took the process down (twice)",
                           "output_tail": ex.output[-2500:]}, f, indent=1)
            ctx.violations.append({"replay": path, "invariant": "NoPanic", "event": {"op": "process"}})
            print("VIOLATION property=%s replay=%s" % (ctx.prop, path), flush=True)
            ctx.log("  the process died of a panic inside the code under test: %s" % ex.output.strip().splitlines()[0][:300])
            rc, status = 1, "violations"
        else:
            ctx.log("INCONCLUSIVE: the code under test crashed the driver process: %s" % ex.output[-1500:])
            rc, status = 2, "inconclusive: driver crashed inside the code under test"
            if ctx.violations:
                rc = 1
    except Inconclusive as ex:
        ctx.log("INCONCLUSIVE: %s" % ex)
        rc, status = 2, "inconclusive: %s" % str(ex)[:300]
        if ctx.violations:
            rc = 1
    except subprocess.TimeoutExpired as ex:
        ctx.log("INCONCLUSIVE: timeout %s" % ex)
        rc, status = 2, "inconclusive: timeout"
    finally:
        try:
            write_evidence(ctx, plan, status)
        finally:
            ctx.cleanup()
    ctx.log("done: rc=%d traces=%d events=%d states=%d violations=%d known=%d" % (
        rc, ctx.traces, ctx.events, ctx.states, len(ctx.violations), len(ctx.known_printed)))
    return rc


def run_replay(root, path, PLANS):
    with open(path) as f:
        rep = json.load(f)
    prop = rep["property"]
    ctx = Ctx(root, prop, "quick", rep.get("seed", 0))
    rc = 0
    try:
        build_driver(ctx)
        if rep.get("replay_fn") in ("lin", "race"):
            ctx.tier = rep.get("tier", "quick")
            STAGES[rep["stage"]["kind"]](ctx, rep["stage"])
            rc = 1 if ctx.violations else 0
            if rc == 0:
                print("replay conforms: property=%s" % prop)
        elif rep.get("replay_fn") == "aux":
            ctx.tier = rep.get("tier", "quick")
            stage_aux(ctx, rep["stage"])
            rc = 1 if ctx.violations else 0
            if rc == 0:
                print("replay conforms: property=%s" % prop)
        elif rep.get("replay_fn") == "drivercrash":
            # files of the original run lived in its scratch directory: use this run's
            dargs = [os.path.join(ctx.work, os.path.basename(a)) if "/.work/" in a else a for a in rep["driver_args"]]
            r = subprocess.run([ctx.driver] + dargs, cwd=ctx.work, env=dict(os.environ, **GOENV), stdout=subprocess.PIPE,
                               stderr=subprocess.STDOUT, text=True)
            if r.returncode != 0 and "panic:" in r.stdout:
                print("VIOLATION property=%s replay=%s" % (prop, path))
                rc = 1
            else:
                print("replay conforms: property=%s" % prop)
                rc = 0
        elif "replay_fn" in rep:
            from . import plans as P
            rc = P.REPLAYS[rep["replay_fn"]](ctx, rep)
        else:
            inp = os.path.join(ctx.work, "replay-in.ndjson")
            with open(inp, "w") as f:
                h = dict(rep.get("header", {}))
                h["op"] = "Reset"
                f.write(json.dumps(h) + "\n")
                for e in rep["events"][1:] if rep["events"] and rep["events"][0].get("op") == "Reset" else rep["events"]:
                    f.write(json.dumps(e) + "\n")
            out = os.path.join(ctx.work, "replay-out.ndjson")
            be = rep.get("header", {}).get("backends", "bolt")
            run_driver(ctx, ["replay", "-in", inp, "-out", out, "-backends", be])
            traces = split_traces(out)
            found = validate_traces(ctx, rep.get("module", "TraceL1"), rep["invariants"], traces, "replay")
            if found:
                print("VIOLATION property=%s replay=%s" % (prop, path))
                rc = 1
            else:
                print("replay conforms: property=%s" % prop)
    except Inconclusive as ex:
        ctx.log("INCONCLUSIVE: %s" % ex)
        rc = 2
    finally:
        ctx.cleanup()
    return rc


def main(root, argv, PLANS):
    if not argv:
        print(__doc__)
        return 2
    if argv[0] == "replay":
        return run_replay(root, argv[1], PLANS)
    prop = argv[0]
    tier = os.environ.get("VERIF_TIER", "quick")
    seed = int(os.environ.get("VERIF_SEED", "1"))
    i = 1
    while i < len(argv):
        if argv[i] == "--tier":
            tier = argv[i + 1]
            i += 2
        elif argv[i] == "--seed":
            seed = int(argv[i + 1])
            i += 2
        else:
            i += 1
    if prop not in PLANS:
        print("unknown property", prop)
        return 2
    return run_check(root, prop, tier, seed, PLANS)
