#!/bin/bash
# usage: battery.sh <outfile> <commit>:<C01,C02,...> ...
# For each fix commit: make a scratch worktree of /repo with the fix reverse-applied, run the listed checks
# against it (VERIF_REPO), record which ones report a violation, remove the worktree.
OUT=$1; shift
for spec in "$@"; do
  C=${spec%%:*}; PROPS=${spec#*:}
  WT=$(mktemp -d /tmp/battery-wt.XXXXXX)
  git -C /repo worktree add -q --detach "$WT" HEAD >/dev/null 2>&1 || { echo "$C worktree failed" >> "$OUT"; continue; }
  if ! (cd "$WT" && git show "$C" --format= | git apply -R 2>/dev/null); then
    echo "$C cannot-reverse-apply" >> "$OUT"
  else
    for P in ${PROPS//,/ }; do
      RES=$(cd /verif && VERIF_REPO="$WT" VERIF_EVIDENCE_DIR="$WT/.evidence" ./vcheck $P 2>&1)
      RC=$?
      echo "$C $P rc=$RC violations=$(echo "$RES" | grep -c '^VIOLATION') :: $(echo "$RES" | grep -m1 'rejected\|not linearizable\|data race\|acknowledged while' | cut -c1-220)" >> "$OUT"
    done
  fi
  git -C /repo worktree remove --force "$WT" >/dev/null 2>&1
  rm -rf "$WT"
done
echo "battery done" >> "$OUT"
