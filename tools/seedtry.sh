#!/bin/bash
# usage: seedtry.sh <seeded-dir-name> <Cxx> [...]  -- like seedrun.sh, but in a scratch worktree of /repo (VERIF_REPO),
# so that /repo itself is left alone (other checks may be running against it)
S=$1; shift
WT=/tmp/seedtry-$S
git -C /repo worktree add -f --detach $WT HEAD >/dev/null 2>&1 || { echo "$S worktree failed"; exit 2; }
git -C $WT apply /verif/seeded/$S/patch.diff || { echo "$S patch does not apply"; git -C /repo worktree remove --force $WT; exit 2; }
for P in "$@"; do
  RES=$(cd /verif && VERIF_REPO=$WT VERIF_EVIDENCE_DIR=/tmp/seedall-evidence VERIF_REPLAY_DIR=/tmp/seedall-replays ./vcheck $P 2>&1); RC=$?
  echo "$S $P rc=$RC violations=$(echo "$RES" | grep -c '^VIOLATION') :: $(echo "$RES" | grep -m1 'rejected\|not linearizable\|data race\|acknowledged while\|INCONCL' | cut -c1-300)"
done
git -C /repo worktree remove --force $WT
