#!/usr/bin/env python3
"""Write the prompt of a seeding sub-agent: tools/seedprompt.py <wave letter> [steer text]
The agent is given the property's text, a scratch worktree of /repo under /tmp/seed and the one-line ideas of earlier
seeded changes for that property (so that it picks another mechanism) - nothing else from /verif.  Creates the
worktrees /tmp/seed/Cxx<w> and output directories /tmp/seed/out-Cxx<w>."""
import json, os, subprocess, sys
W = sys.argv[1]
STEER = sys.argv[2] if len(sys.argv) > 2 else ""
TMPL = '''You are helping to evaluate a verification effort for the Go library ostafen/clover (an embedded document-oriented NoSQL database layered over bbolt/badger). You have your own scratch git worktree of the library at __WT__ (do all your work there; do NOT touch /repo or /verif, and do not read anything under /verif).

Here is a semantic property the library is supposed to satisfy:

__PROP__

__NOTE__YOUR TASK: produce ONE realistic change (a bug a maintainer could plausibly introduce during a refactoring, optimisation or feature addition) to the library's non-test Go source in __WT__ that BREAKS this property, while
  (1) the library still compiles (`cd __WT__ && GOFLAGS=-mod=mod GOPROXY=off GOSUMDB=off GOTOOLCHAIN=local go build ./...`), and
  (2) the existing test suite still passes exactly as before: run `cd __WT__ && GOFLAGS=-mod=mod GOPROXY=off GOSUMDB=off GOTOOLCHAIN=local go test -vet=off -count=1 ./... 2>&1 | tail -20` before and after your change. Every test that passes before your change must still pass after it, and no new test may fail.

The change must need something SPECIFIC to manifest - a particular multi-step sequence of operations, an unusual input or value, a particular index configuration, a particular interleaving of goroutines, a crash or store failure at a particular point, or two cooperating code sites that each look fine alone. Do NOT make a change that ordinary everyday use of the library would expose at once (e.g. do not simply break every query). Subtle is better than blatant. Do not edit or add files named *_test.go in the library as part of the change, do not change go.mod, and do not touch files guarded by the `verif` build tag (verif_on.go / verif_off.go).

Also write a DEMONSTRATION: a small Go test file (package clover_test) or a `package main` program in its own directory with a go.mod that `replace`s github.com/ostafen/clover/v2 => __WT__ (copy __WT__/go.sum next to it), that FAILS (or prints a clear FAIL message and exits non-zero) with your change applied and PASSES on the unchanged code. Verify both directions yourself (`git -C __WT__ diff > /tmp/seed/__NAME__.keep.diff; git -C __WT__ checkout -- .; ...run...; git -C __WT__ apply /tmp/seed/__NAME__.keep.diff`; never use `git stash`: the stash is shared between worktrees). The sandbox has no network: only the modules already in the Go module cache are available (GOFLAGS=-mod=mod GOPROXY=off).

DELIVERABLES - put them in the directory __OUT__ :
  - patch.diff : output of `git -C __WT__ diff` (only your change to library source; the demonstration must NOT be part of it)
  - the demonstration (demo_test.go, or a directory demo/ with main.go + go.mod + go.sum), plus a file RUN.txt with the exact commands to run it
  - NOTES.md : which part of the property the change breaks, what exactly is needed for it to manifest, and the output you observed with and without the change

When you are done, leave the worktree __WT__ with your change APPLIED (uncommitted). Reply with a 5-10 line summary (what you changed, what it needs to manifest, how you verified both directions). If, while reading, you notice behaviour of the UNCHANGED library that itself seems to contradict the property, say so in one extra line.
'''
props = {json.loads(l)["id"]: json.loads(l) for l in open("/verif/properties.jsonl")}
os.makedirs("/tmp/seed", exist_ok=True)
for i in range(1, 21):
    pid = "C%02d" % i
    name = pid + W
    p = props[pid]
    ideas = []
    for d in sorted(os.listdir("/verif/seeded")):
        m = "/verif/seeded/%s/meta.json" % d
        if d.startswith(pid + "-") and os.path.exists(m):
            ideas.append(json.load(open(m))["change"])
    block = "Property %s: %s\n\nStatement: %s\n\nQuantifier: %s\n" % (pid, p["title"], p["statement"], p["quantifier"]["text"])
    note = ("NOTE: earlier attempts at this same task already used the following ideas, so you must pick a clearly DIFFERENT "
            "mechanism and a different code site (prefer a package, a code path or a clause of the property that none of them "
            "touches; read the whole repository first - store adapters, index, internal, util, query, document, json.go, plan.go, "
            "visit.go - before choosing; the change must manifest for inputs INSIDE the quantifier of the property as stated above" +
            ("; " + STEER if STEER else "") + "): " + "; ".join('"%s"' % x for x in ideas) + ".\n\n")
    wt, out = "/tmp/seed/" + name, "/tmp/seed/out-" + name
    t = TMPL.replace("__PROP__", block).replace("__NOTE__", note).replace("__WT__", wt).replace("__OUT__", out).replace("__NAME__", name)
    open("/tmp/seed/prompt-%s.txt" % name, "w").write(t)
    subprocess.run(["git", "-C", "/repo", "worktree", "add", "-f", "--detach", wt, "HEAD"], stdout=subprocess.DEVNULL, stderr=subprocess.DEVNULL)
    os.makedirs(out, exist_ok=True)
print("prompts written for wave", W)
