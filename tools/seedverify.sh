#!/bin/bash
# usage: seedverify.sh <Cxx>   -- confirm a sub-agent's seeded change (worktree /tmp/seed/<Cxx>, deliverables /tmp/seed/out-<Cxx>)
P=$1; WT=/tmp/seed/$P; OUT=/tmp/seed/out-$P
export GOFLAGS=-mod=mod GOPROXY=off GOSUMDB=off GOTOOLCHAIN=local
cd $WT || exit 2
git diff > /tmp/seed/$P.current.diff
if ! diff -q <(grep -v '^index ' /tmp/seed/$P.current.diff) <(grep -v '^index ' $OUT/patch.diff) >/dev/null; then echo "NOTE: worktree diff differs from patch.diff (using worktree diff)"; fi
echo "files changed: $(git diff --name-only | tr '\n' ' ')"
go build ./... || { echo "BUILD FAILS"; exit 1; }
go build -tags verif ./... || { echo "BUILD (verif) FAILS"; exit 1; }
go test -json -vet=off -count=1 ./... 2>/dev/null > /tmp/seed/$P.tests.json
python3 - "$P" <<'PY'
import json,sys
base=json.load(open('/root/.vp/BASELINE.json'))
res={}
for l in open('/tmp/seed/%s.tests.json'%sys.argv[1]):
    try: e=json.loads(l)
    except: continue
    if e.get('Test') and e.get('Action') in('pass','fail'): res[e['Package']+'::'+e['Test']]=e['Action']
missing=[t for t in base['stable_pass'] if res.get(t)!='pass']
print('suite with change: %d/84 stable tests pass'%(84-len(missing)), missing[:5])
PY
rundemo() {
  if [ -d $OUT/demo ]; then (cd $OUT/demo && cp $WT/go.sum . 2>/dev/null; go run . >/tmp/seed/$P.demo.out 2>&1; echo $?)
  else cp $OUT/demo_test.go $WT/zz_seed_demo_test.go; (cd $WT && go test -vet=off -count=1 -run "$(grep -o '^func Test[A-Za-z0-9_]*' $OUT/demo_test.go | sed 's/func //' | paste -sd'|')" . >/tmp/seed/$P.demo.out 2>&1; echo $?); rm -f $WT/zz_seed_demo_test.go; fi
}
R1=$(rundemo); echo "demo with change: exit=$R1"; grep -i -m3 "fail" /tmp/seed/$P.demo.out | cut -c1-200
git diff > /tmp/seed/$P.keep.diff; git checkout -q -- .; R2=$(rundemo); echo "demo without change: exit=$R2"; git apply /tmp/seed/$P.keep.diff
if [ "$R1" != "0" ] && [ "$R2" = "0" ]; then echo "CONFIRMED $P"; else echo "NOT CONFIRMED $P"; fi
