#!/bin/bash
# usage: thorough_rest.sh <Cxx> ...   -- run the thorough tier of the given checks, one summary line each
for P in "$@"; do
  S=$(date +%s)
  OUT=$(cd /verif && VERIF_SEED=${SEED:-1} VERIF_EVIDENCE_DIR=/tmp/thorough-evidence ./vcheck $P --tier thorough 2>&1)
  RC=$?
  echo "seed=${SEED:-1} $P rc=$RC $(( $(date +%s) - S ))s viol=$(echo "$OUT" | grep -c '^VIOLATION') known=$(echo "$OUT" | grep -c '^KNOWN-FINDING') $(echo "$OUT" | grep -m1 'INCONCLUSIVE\|rejected' | cut -c1-250)"
done
