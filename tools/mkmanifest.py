#!/usr/bin/env python3
"""Regenerate MANIFEST.json from lib/vlib/plans.py + tools/manifest_meta.json."""
import json, os, sys
ROOT = os.path.dirname(os.path.dirname(os.path.abspath(__file__)))
sys.path.insert(0, os.path.join(ROOT, "lib"))
from vlib import plans
meta = json.load(open(os.path.join(ROOT, "tools", "manifest_meta.json")))
props = [json.loads(l)["id"] for l in open(os.path.join(ROOT, "properties.jsonl")) if l.strip()]
checks = []
for pid in props:
    if pid not in plans.PLANS or pid in meta.get("not_applicable", {}):
        continue
    m = meta["checks"].get(pid, {})
    checks.append({
        "property_id": pid,
        "quick_cmd": "./vcheck %s --tier quick" % pid,
        "thorough_cmd": "./vcheck %s --tier thorough" % pid,
        "evidence_file": "evidence/%s.json" % pid,
        "replay_cmd_template": "./vcheck replay {path}",
        "engine": "tla-trace-validation",
        "level_claimed": {"category": plans.PLANS[pid]["level"],
                          "text": m.get("text", meta["default_text"]),
                          "design_ref": m.get("design_ref", "DESIGN.md section 7 (%s)" % pid)},
        "level_note": m.get("note", meta["default_note"]),
        "technique": m.get("technique", meta["default_technique"]),
    })
na = [{"property_id": p, "reason": r} for p, r in meta.get("not_applicable", {}).items()]
for pid in props:
    if pid not in plans.PLANS and pid not in meta.get("not_applicable", {}):
        na.append({"property_id": pid, "reason": "check not built yet (work in progress); see DESIGN.md section 7"})
man = {
    "version": 1,
    "setup_cmd": "./setup.sh",
    "hooks": meta["hooks"],
    "engines": meta["engines"],
    "checks": checks,
    "not_applicable": na,
    "notes": meta["notes"],
}
json.dump(man, open(os.path.join(ROOT, "MANIFEST.json"), "w"), indent=1)
print("MANIFEST.json: %d checks, %d not applicable" % (len(checks), len(na)))
