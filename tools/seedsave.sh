#!/bin/bash
# usage: seedsave.sh <name> <seeded-dir>  -- copy a confirmed sub-agent deliverable (/tmp/seed/out-<name>) to /verif/seeded/<seeded-dir>
N=$1; D=/verif/seeded/$2
mkdir -p $D && cp -r /tmp/seed/out-$N/. $D/ && (cd /tmp/seed/$N && git diff) > $D/patch.diff && ls $D
