#!/bin/bash
# usage: seedall.sh [seed-dir ...]  -- run, for every seeded change, the quick checks that are recorded as detecting it
# (meta.json: detected_by), each in its own scratch worktree of /repo (VERIF_REPO), 4 at a time; prints one line per pair.
# The registered way to run a check against a change (apply to /repo, run, undo) is tools/seedrun.sh.
cd /verif
DIRS="$@"; [ -z "$DIRS" ] && DIRS=$(ls seeded)
run_one() {
  S=$1; WT=/tmp/seedall-$S
  git -C /repo worktree add -f --detach $WT HEAD >/dev/null 2>&1 || { echo "$S worktree failed"; return; }
  if ! git -C $WT apply /verif/seeded/$S/patch.diff; then echo "$S patch does not apply"; git -C /repo worktree remove --force $WT; return; fi
  for P in $(python3 -c "import json;print(' '.join(json.load(open('/verif/seeded/$S/meta.json'))['detected_by'][:1]))"); do
    RES=$(VERIF_REPO=$WT VERIF_EVIDENCE_DIR=/tmp/seedall-evidence VERIF_REPLAY_DIR=/tmp/seedall-replays ./vcheck $P 2>&1); RC=$?
    echo "$S $P rc=$RC violations=$(echo "$RES" | grep -c '^VIOLATION')"
  done
  git -C /repo worktree remove --force $WT
}
export -f run_one
echo $DIRS | tr ' ' '\n' | xargs -P 4 -I{} bash -c 'run_one {}'
git -C /repo worktree prune
