#!/bin/bash
# usage: seedbatch.sh <name> [<Cxx> ...]   e.g. seedbatch.sh C07d  -- confirm a sub-agent's deliverable, save it under
# seeded/<Cxx>-<letter>, and run the property's quick check (or the given ones) against it in a scratch worktree
N=$1; shift
P=${N:0:3}; D=$P-${N:3}
V=$(/verif/tools/seedverify.sh $N 2>&1 | tail -1)
echo "$N: $V"
case "$V" in CONFIRMED*) ;; *) exit 1;; esac
/verif/tools/seedsave.sh $N $D >/dev/null
[ $# -eq 0 ] && set -- $P
/verif/tools/seedtry.sh $D "$@" 2>&1 | tail -$# | cut -c1-360
