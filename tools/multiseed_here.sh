#!/bin/bash
# usage (from a snapshot of /verif, e.g. under `vp run --with-repo`): tools/multiseed_here.sh <tier> <seed> ...
# Runs every check (or those named in $PROPS) of this tree against $VP_RUN_REPO (or /repo) and prints one summary line per (seed, property).
ROOT=$(cd "$(dirname "$0")/.." && pwd)
TIER=$1; shift
export VERIF_REPO=${VP_RUN_REPO:-/repo} VERIF_EVIDENCE_DIR=$ROOT/.evidence-run VERIF_REPLAY_DIR=$ROOT/.replays-run
export GOFLAGS=-mod=mod GOPROXY=off GOSUMDB=off GOTOOLCHAIN=local
cd "$ROOT" && ./vcheck warm >/dev/null 2>&1
for SEED in "$@"; do
  for P in ${PROPS:-C01 C02 C03 C04 C05 C06 C07 C08 C09 C10 C11 C12 C13 C14 C15 C16 C17 C18 C19 C20}; do
    S=$(date +%s); OUT=$(VERIF_SEED=$SEED ./vcheck $P --tier $TIER 2>&1); RC=$?
    echo "seed=$SEED $P rc=$RC $(( $(date +%s) - S ))s viol=$(echo "$OUT" | grep -c '^VIOLATION') known=$(echo "$OUT" | grep -c '^KNOWN-FINDING') $(echo "$OUT" | grep -m1 'INCONCLUSIVE\|rejected\|not linearizable' | cut -c1-300)"
  done
done
