#!/bin/sh
# usage: tlctrace.sh <trace.ndjson> <Inv1,Inv2> [module]   -- manual trace validation, prints a compact summary
TRACE=$(readlink -f "$1"); INVS=$(echo "$2" | tr ',' ' '); MOD=${3:-TraceL1}
D=$(mktemp -d /tmp/tlctrace.XXXXXX)
cp /verif/spec/*.tla "$D"/
printf 'SPECIFICATION TraceSpec\nINVARIANTS %s\nPOSTCONDITION TraceAccepted\nALIAS TraceAlias\nCHECK_DEADLOCK FALSE\n' "$INVS" > "$D/$MOD.cfg"
cd "$D" && TRACE_FILE="$TRACE" timeout 900 java -Xmx6g -Xss64m -XX:+UseParallelGC -cp /opt/veriftools/tla/tla2tools.jar:/opt/veriftools/tla/CommunityModules-deps.jar tlc2.TLC -workers 1 -metadir "$D/meta" -config $MOD.cfg $MOD.tla 2>&1 | grep -v "^State [0-9]\|^l = \|^$\|^Parsing\|^Semantic\|^Linting" | tail -${TAILN:-25}
cd / && rm -rf "$D"
