#!/bin/bash
# usage: allquick.sh <seed> [tier]  -- run every registered check once and summarise
SEED=$1; TIER=${2:-quick}
for P in C01 C02 C03 C04 C05 C06 C07 C08 C09 C10 C11 C12 C13 C14 C15 C16 C17 C18 C19 C20; do
  S=$(date +%s); OUT=$(cd /verif && VERIF_SEED=$SEED VERIF_EVIDENCE_DIR=/tmp/allquick-evidence ./vcheck $P --tier $TIER 2>&1); RC=$?
  echo "seed=$SEED $P rc=$RC $(( $(date +%s) - S ))s viol=$(echo "$OUT" | grep -c '^VIOLATION') known=$(echo "$OUT" | grep -c '^KNOWN-FINDING') $(echo "$OUT" | grep -m1 'INCONCLUSIVE\|rejected' | cut -c1-250)"
done
