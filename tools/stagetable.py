#!/usr/bin/env python3
"""Print the registered stages of every check (from lib/vlib/plans.py) as a markdown table."""
import os, sys
ROOT = os.path.dirname(os.path.dirname(os.path.abspath(__file__)))
sys.path.insert(0, os.path.join(ROOT, "lib"))
from vlib import plans

def desc(st):
    k = st["kind"]
    tier = " (thorough only)" if st.get("tier") == "thorough" else ""
    adv = " [advisory]" if st.get("advisory") else ""
    if k == "trace":
        src = "driver `%s`" % st["cmd"] if st.get("cmd") else "profile `%s`" % st["profile"]
        be = (" on " + st["backends"]) if st.get("backends") else ""
        return "%s: %s%s, n=%s -> TraceL1 %s%s" % (st["name"], src, be, st["n"], " ".join(st["invariants"]), tier)
    if k == "edges":
        fam = " family `%s`" % st["name"] if st.get("event_re") else ""
        return "%s: TLC-generated instances x states (MC_L1)%s -> %s%s" % (st["name"], fam, " ".join(st["invariants"]), tier)
    if k == "mc":
        ev = " (TLC must refute %s)" % st["expect_violation"] if st.get("expect_violation") else ""
        return "%s: TLC %s/%s%s%s" % (st["name"], st["module"], st.get("cfg"), ev, tier)
    if k == "apalache":
        ev = " (must be refuted)" if st.get("expect_violation") else ""
        return "%s: Apalache %s %s/%s%s" % (st["name"], st["module"], st["init"], st["inv"], ev)
    if k == "aux":
        return "%s: observations `%s`, n=%s -> %s %s%s%s" % (st["name"], st["aux"], st["n"], st.get("module", "TraceAux"), " ".join(st.get("invariants", ["InvAux"])), adv, tier)
    if k == "lin":
        what = "model behaviours replayed through store gates" if (st.get("sched") or st.get("sched_sim")) else \
               "gated schedules" if st.get("gated") else "bare adapters" if st.get("raw") else "perturbed schedules"
        return "%s: concurrent histories (%s), n=%s -> TraceLin" % (st["name"], what, st["n"])
    if k == "race":
        return "%s: Go race detector, n=%s" % (st["name"], st["n"])
    return "%s: %s" % (st["name"], k)

print("| property | level | stages (quick n, thorough n) |")
print("|---|---|---|")
for pid in sorted(plans.PLANS):
    p = plans.PLANS[pid]
    print("| %s | %s | %s |" % (pid, p["level"], "<br>".join(desc(s) for s in p["stages"])))
