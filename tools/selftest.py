#!/usr/bin/env python3
"""Demonstrate the binding between specification and recorded executions (DESIGN.md 5.5): take a
conforming trace of the real code, corrupt one recorded field or drop one event, and require TLC to
reject it.  Usage: tools/selftest.py  (prints one line per corruption; exit 1 if any is accepted)."""
import copy, json, os, random, subprocess, sys, tempfile
ROOT = os.path.dirname(os.path.dirname(os.path.abspath(__file__)))
sys.path.insert(0, os.path.join(ROOT, "lib"))
from vlib import core

ctx = core.Ctx(ROOT, "selftest", "quick", 7)
core.build_driver(ctx)
out = os.path.join(ctx.work, "t.ndjson")
core.run_driver(ctx, ["gen", "-profile", "audit", "-seed", "7", "-n", "6", "-backends", "bolt", "-out", out])
traces = core.split_traces(out)
INV = ["InvOutcome", "InvValue", "InvAudit", "InvNoPanic"]
assert not core.validate_traces(ctx, "TraceL1", INV, traces, "base"), "base traces must conform"
rng = random.Random(1)
bad = 0

def try_corruption(name, mutate):
    global bad
    for t in traces:
        evs = [json.loads(l) for l in t]
        idxs = list(range(1, len(evs)))
        rng.shuffle(idxs)
        for i in idxs:
            new = mutate(copy.deepcopy(evs), i)
            if new is None:
                continue
            lines = [json.dumps(e) + "\n" for e in new]
            found = core.validate_traces(ctx, "TraceL1", INV, [lines], "c")
            ok = bool(found)
            print("%-34s -> %s" % (name, "rejected (%s)" % found[0]["invariant"] if ok else "ACCEPTED"))
            if not ok:
                bad += 1
            return
    print("%-34s -> no applicable event" % name)

def size_off(evs, i):
    r = evs[i]["runs"][0]
    if "audit" in r and r["audit"]["colls"]:
        r["audit"]["colls"][0]["size"] += 1
        return evs
def drop_result_doc(evs, i):
    r = evs[i]["runs"][0]["res"]
    if evs[i]["op"] == "FindAll" and r.get("st") == "ok" and len(r["val"]) > 0:
        r["val"].pop()
        return evs
def swap_value(evs, i):
    r = evs[i]["runs"][0]["res"]
    if evs[i]["op"] == "FindAll" and r.get("st") == "ok" and len(r["val"]) > 0:
        d = r["val"][0]
        for p in d[1]:
            if p[1][0] == "num":
                p[1][1] = (p[1][1] + 1) % 20
                return evs
def stale_entry(evs, i):
    r = evs[i]["runs"][0]
    if "audit" in r:
        for c in r["audit"]["colls"]:
            if c["entries"]:
                c["entries"][0][2] = 0
                return evs
def extra_entry(evs, i):
    r = evs[i]["runs"][0]
    if "audit" in r:
        for c in r["audit"]["colls"]:
            if c["entries"]:
                c["entries"].append(c["entries"][0])
                return evs
def drop_event(evs, i):
    if evs[i]["op"] in ("Insert", "InsertOne") and evs[i]["runs"][0]["res"]["st"] == "ok" and len(evs[i].get("docs", [])) > 0:
        del evs[i]
        return evs
def error_to_ok(evs, i):
    r = evs[i]["runs"][0]["res"]
    if r.get("st") == "err":
        r["st"], r["err"] = "ok", ""
        return evs
def wrong_sentinel(evs, i):
    r = evs[i]["runs"][0]["res"]
    if r.get("st") == "err" and r["err"] == "ErrDocumentNotExist":
        r["err"] = "ErrCollectionNotExist"
        return evs
def count_off(evs, i):
    r = evs[i]["runs"][0]["res"]
    if evs[i]["op"] == "Count" and r.get("st") == "ok":
        r["val"] += 1
        return evs
def panic_outcome(evs, i):
    r = evs[i]["runs"][0]["res"]
    if evs[i]["op"] == "FindAll":
        r["st"] = "panic"
        return evs
def ghost_collection(evs, i):
    r = evs[i]["runs"][0]
    if "audit" in r:
        r["audit"]["orphans"].append(["ghost", 1, 0])
        return evs

for name, fn in [("Size off by one in an audit", size_off), ("a document missing from a FindAll", drop_result_doc),
                 ("a field value changed in a result", swap_value), ("an index entry under a stale value", stale_entry),
                 ("a duplicated index entry", extra_entry), ("an Insert event dropped", drop_event),
                 ("an error reported as success", error_to_ok), ("a different sentinel error", wrong_sentinel),
                 ("Count off by one", count_off), ("a panic outcome", panic_outcome),
                 ("keys of a dropped collection left", ghost_collection)]:
    try_corruption(name, fn)

# ---- the other trace specifications: one corruption each
import re

def tlc_accepts(module, cfg, path, deque=False):
    r = core.tlc(ctx, module, cfg, "st-" + module, env={"TRACE_FILE": path}, workers=1, heap="4g", timeout=600, deque=deque)
    if module == "TraceLin":
        m = re.search(r'<<"HIGHWATER", (\d+), (\d+)>>', r["out"])
        return bool(m) and int(m.group(1)) == int(m.group(2)) + 1 and r["ok"]
    return r["ok"]

def check(name, module, cfg, lines, mutate, deque=False):
    global bad
    p0 = os.path.join(ctx.work, "st-%s-base.ndjson" % module)
    open(p0, "w").writelines(lines)
    assert tlc_accepts(module, cfg, p0, deque), "base %s trace must conform" % module
    new = mutate([json.loads(l) for l in lines])
    p1 = os.path.join(ctx.work, "st-%s-bad.ndjson" % module)
    open(p1, "w").writelines(json.dumps(e) + "\n" for e in new)
    ok = not tlc_accepts(module, cfg, p1, deque)
    print("%-34s -> %s" % (name, "rejected (%s)" % module if ok else "ACCEPTED"))
    if not ok:
        bad += 1

# key layout: a seek that lost the terminator of the field name
kout = os.path.join(ctx.work, "keys.ndjson")
core.run_driver(ctx, ["aux", "-kind", "keys", "-seed", "7", "-n", "4", "-out", kout])
def unterminated_seek(evs):
    for e in evs:
        for ph in e.get("phases", []):
            if ph["ph"] == "dropindex":
                ph["seeks"] = [ph["seeks"][0][:-1]]
                return evs
check("an index seek without terminator", "TraceAux", core.TRACE_CFG % "InvAux", open(kout).readlines(), unterminated_seek)

# the cursor contract: a cursor that, sought again, still stands where it stood
cuout = os.path.join(ctx.work, "cursor.ndjson")
core.run_driver(ctx, ["aux", "-kind", "cursor", "-seed", "7", "-n", "6", "-out", cuout])
def stale_cursor(evs):
    for e in evs:
        if e.get("kind") == "cursor" and e["obs"] and e["obs2"] and e["obs2"][0] != e["obs"][-1]:
            e["obs2"] = [e["obs"][-1]] + e["obs2"]
            return evs
check("a second seek that kept the old item", "TraceAux", core.TRACE_CFG % "InvAux", open(cuout).readlines(), stale_cursor)

# Close against running operations: a call that never returned
crout = os.path.join(ctx.work, "closerace.ndjson")
core.run_driver(ctx, ["aux", "-kind", "closerace", "-seed", "7", "-n", "3", "-out", crout])
def blocked_call(evs):
    for e in evs:
        if e.get("kind") == "closerace":
            e["blocked"] = 1
            return evs
check("a call that never returned", "TraceAux", core.TRACE_CFG % "InvAux", open(crout).readlines(), blocked_call)

# concurrency: a Count that still reports the size before an acknowledged insert
cout = os.path.join(ctx.work, "conc.ndjson")
core.run_driver(ctx, ["conc", "-seed", "7", "-n", "1", "-maxg", "2", "-ops", "2", "-backends", "bolt", "-out", cout])
def stale_final_state(evs):
    for e in evs:
        if e.get("t") == "audit":
            for c in e["audit"]["colls"]:
                c["size"] += 1
            return evs
check("a final state nobody produced", "TraceLin", core.LIN_CFG, open(cout).readlines(), stale_final_state, deque=True)

# normalisation: a struct field that ignored its rename tag
nout = os.path.join(ctx.work, "norm.ndjson")
core.run_driver(ctx, ["aux", "-kind", "norm", "-seed", "7", "-n", "200", "-out", nout])
def wrong_key(evs):
    for e in evs:
        if e.get("kind") == "norm" and e["obs"][0] == "set" and e["obs"][1][0] == "obj" and e["obs"][1][1]:
            e["obs"][1][1][0][0] = [122, 122]
            return evs
# (the first lines of a norm trace are the witnesses of open known findings: left out)
check("a normalised key renamed", "TraceAux", core.TRACE_CFG % "InvAux",
      [l for l in open(nout).readlines() if "invalid-utf8" not in l and "subminute-zone" not in l], wrong_key)

# the reporting path: an open known finding suppresses only what its entry identifies
class _K:
    prop = "C18"
    known = [{"status": "open", "property": "C18", "what": "w", "match": {"line_re": "\"rt\":\"diff:invalid-utf8\""}},
             {"status": "open", "property": "C18", "what": "no criteria", "match": {}},
             {"status": "open", "property": "C18", "what": "unknown criterion", "match": {"lines_re": "."}},
             {"status": "fixed", "property": "C18", "what": "fixed", "match": {"op": ["Insert"]}}]
other = {"trace": ['{"op":"Reset","profile":"rich"}\n', '{"op":"Insert","runs":[{"be":"bolt","res":{"st":"ok","harm":"x"}}]}\n'],
         "line_in_trace": 2, "invariant": "InvNoPanic"}
same = dict(other, trace=[other["trace"][0], '{"op":"Norm","kind":"normdoc","rt":"diff:invalid-utf8","runs":[]}\n'])
for name, info, want in (("another violation of a property with an open finding", other, None), ("the listed finding itself", same, "w")):
    k = core.known_match(_K, info, {})
    got = k and k["what"]
    print("%-34s -> %s" % (name[:34], "reported" if got is None else "KNOWN-FINDING (%s)" % got))
    if got != want:
        print("  the known-finding matcher is wrong: expected %r" % (want,))
        bad += 1

ctx.cleanup()
sys.exit(1 if bad else 0)
