#!/bin/bash
# usage: seedrun.sh <seeded-dir-name> <Cxx> [...]  -- apply a seeded change to /repo, run checks, undo it straight afterwards
S=/verif/seeded/$1; shift
cd /repo || exit 2
if ! git diff --quiet; then echo "/repo not clean"; exit 2; fi
git apply $S/patch.diff || { echo "patch does not apply"; exit 2; }
for P in "$@"; do
  RES=$(cd /verif && VERIF_EVIDENCE_DIR=/tmp/seed-evidence ./vcheck $P 2>&1); RC=$?
  echo "$(basename $S) $P rc=$RC violations=$(echo "$RES" | grep -c '^VIOLATION') :: $(echo "$RES" | grep -m1 'rejected\|not linearizable\|data race\|acknowledged while' | cut -c1-300)"
done
git checkout -- . ; git status --short | grep -v '^??' | head -3
