#!/bin/sh
# usage: revcheck.sh <fix-commit> <Cxx> [<Cxx> ...]
# Re-introduce a repaired defect (reverse-apply its fix commit to /repo's working tree), run the given
# checks, and restore the tree.  Used to measure which checks catch which defect.
C=$1; shift
cd /repo || exit 2
if ! git diff --quiet; then echo "/repo working tree not clean"; exit 2; fi
git show "$C" --format= | git apply -R --3way 2>/tmp/revcheck.err || git show "$C" --format= | git apply -R 2>>/tmp/revcheck.err || { echo "cannot reverse-apply $C"; cat /tmp/revcheck.err; git checkout -q -- .; exit 2; }
git reset -q
for P in "$@"; do
  OUT=$(cd /verif && ./vcheck $P 2>&1)
  RC=$?
  echo "$C $P rc=$RC $(echo "$OUT" | grep -c '^VIOLATION') violation lines; $(echo "$OUT" | grep 'rejected' | head -1 | cut -c1-260)"
done
git checkout -q -- .
git status --short | grep -v '^??' | head -3
