#!/bin/sh
# Run the repository's pinned test suite (guard off) and report pass/fail counts against BASELINE.json.
cd /repo && export GOFLAGS=-mod=mod GOPROXY=off GOSUMDB=off GOTOOLCHAIN=local
go test -json -vet=off -count=1 -timeout 25m ./... 2>&1 > /tmp/baseline.json
python3 - <<'PY'
import json
base=json.load(open('/root/.vp/BASELINE.json'))
res={}
for l in open('/tmp/baseline.json'):
    try: e=json.loads(l)
    except: continue
    if e.get('Test') and e.get('Action') in('pass','fail'):
        res[e['Package']+'::'+e['Test']]=e['Action']
missing=[t for t in base['stable_pass'] if res.get(t)!='pass']
print('baseline: %d/%d stable tests pass'%(len(base['stable_pass'])-len(missing),len(base['stable_pass'])))
for t in missing: print('  NOT PASSING:',t,res.get(t))
newpass=[t for t in base['always_fail'] if res.get(t)=='pass']
if newpass: print('  now passing (were always_fail):',newpass)
PY
