#!/bin/sh
# Build everything from files on disk, offline.
set -e
cd "$(dirname "$0")"
export GOFLAGS=-mod=mod GOPROXY=off GOSUMDB=off GOTOOLCHAIN=local
cp /repo/go.sum harness/go.sum
mkdir -p bin evidence
(cd harness && go build -tags verif -o ../bin/driver .)
java -cp /opt/veriftools/tla/tla2tools.jar tlc2.TLC -h >/dev/null 2>&1 || true
(cd harness && go build -race -tags verif -o ../bin/driver-race . ) || true
./vcheck warm
echo setup ok
