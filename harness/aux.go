package main

// Self-contained observations for the stateless parts of the specification (TraceAux.tla):
// value order and index keys (C10), Criteria.Satisfy (C16), index range scans / Intersect / IsEmpty
// (C17), the store cursor contract (C15).

import (
	"bufio"
	"bytes"
	"encoding/json"
	"errors"
	"flag"
	"fmt"
	"math/rand"
	"os"
	"sort"
	"strings"
	"sync"
	"sync/atomic"
	"time"

	clover "github.com/ostafen/clover/v2"
	"github.com/ostafen/clover/v2/document"
	"github.com/ostafen/clover/v2/index"
	"github.com/ostafen/clover/v2/query"
	"github.com/ostafen/clover/v2/store"
)

func init() {
	extraCommands["aux"] = cmdAux
}

func cmdAux(args []string) {
	fs := flag.NewFlagSet("aux", flag.ExitOnError)
	kind := fs.String("kind", "values", "values|satisfy|scan|intersect|cursor|norm|docpath")
	seed := fs.Int64("seed", 1, "seed")
	n := fs.Int("n", 10, "number of lines / size parameter")
	out := fs.String("out", "aux.ndjson", "output")
	statsOut := fs.String("stats", "", "stats json")
	fs.Parse(args)

	f, err := os.Create(*out)
	if err != nil {
		panic(err)
	}
	w := bufio.NewWriterSize(f, 1<<20)
	w.Write(marshalLine(E{"kind": "Reset", "what": *kind, "seed": *seed}))
	stats := map[string]int{}
	emit := func(e E) {
		w.Write(marshalLine(e))
		stats["lines"]++
	}
	r := rand.New(rand.NewSource(*seed))
	switch *kind {
	case "values":
		auxValues(r, *seed, *n, emit, stats)
	case "satisfy":
		auxSatisfy(r, *seed, *n, emit, stats)
	case "scan":
		auxScan(r, *n, emit, stats)
	case "intersect":
		auxIntersect(r, *n, emit, stats)
	case "cursor":
		auxCursor(r, *n, emit, stats)
	case "plan":
		auxPlan(r, *seed, *n, emit, stats)
	case "rwset":
		auxRwset(emit, stats)
	case "keys":
		auxKeys(r, *n, emit, stats)
	case "norm":
		auxNorm(r, *n, emit, stats)
	case "docpath":
		auxDocPath(r, *n, emit, stats)
	case "closerace":
		auxCloseRace(r, *n, emit, stats)
	default:
		panic("unknown aux kind " + *kind)
	}
	w.Flush()
	f.Close()
	if *statsOut != "" {
		writeJSON(*statsOut, E{"events": stats["lines"], "traces": 1, "outcomes": stats})
	}
	fmt.Printf("aux: kind=%s seed=%d lines=%d -> %s\n", *kind, *seed, stats["lines"], *out)
}

func writeJSON(path string, v interface{}) {
	os.WriteFile(path, marshalLine(v.(E)), 0o644)
}

// safely runs fn, reporting a panic as ok=false
func safely(fn func()) (ok bool, msg string) {
	defer func() {
		if r := recover(); r != nil {
			ok = false
			msg = fmt.Sprint(r)
		}
	}()
	fn()
	return true, ""
}

// ---------------------------------------------------------------- C10

var bigIntNames = map[string]bool{"MinInt64": true, "MinInt64+1": true, "-2^53-1": true, "2^53+1": true, "MaxInt64-1": true,
	"MaxInt64": true, "2^63": true, "2^63+1": true, "MaxUint64-1": true, "MaxUint64": true}

// keyDomain: key-order agreement is claimed for numbers within 2^53 and times from 1970 on
func (u *Universe) keyDomain(v V) bool {
	switch v[0].(string) {
	case "num":
		return !bigIntNames[u.nums[toInt(v[1])].name]
	case "time":
		return !u.times[toInt(v[1])].t.Before(mustTime("1970-01-01T00:00:00Z"))
	case "arr":
		for _, e := range toList(v[1]) {
			if !u.keyDomain(toV(e)) {
				return false
			}
		}
	case "obj":
		for _, p := range toList(v[1]) {
			if !u.keyDomain(toV(toList(p)[1])) {
				return false
			}
		}
	}
	return true
}

func valueUniverse(r *rand.Rand, u *Universe, n int) []V {
	var vals []V
	vals = append(vals, ANil())
	for ord := range u.nums {
		for _, rep := range u.Reps(ord) {
			vals = append(vals, ANum(ord, rep))
		}
	}
	for _, s := range []string{"", "a", "ab", "abc", "b", "\x00", "\x00\x00", "a\x00", "a\x00b", "a\x01", "\xff", "\xff\xff", "a\xff", "a\xffb", "\xff\x00", "\x00\xff", "é", "z",
		"\xff\x01", "a\xff\x01b", "\x00\x01", "\x00\xff\x01"} {
		vals = append(vals, AStr(s))
	}
	vals = append(vals, ABool(false), ABool(true))
	for ord := range u.times {
		vals = append(vals, ATime(ord, 0))
		vals = append(vals, ATime(ord, 1+r.Intn(genZones-1)))
	}
	small := func() V { return ANum(r.Intn(len(u.nums)), u.Reps(0)[0]) }
	_ = small
	pickNum := func() V {
		ord := r.Intn(len(u.nums))
		reps := u.Reps(ord)
		return ANum(ord, reps[r.Intn(len(reps))])
	}
	one, two := pickNum(), pickNum()
	// arrays: empty, prefix-related, mixed types, nested
	vals = append(vals, AArr(), AArr(one), AArr(one, two), AArr(two), AArr(ANil()), AArr(AStr("a")), AArr(AStr("a"), one),
		AArr(AArr()), AArr(AArr(one)), AArr(AObj()), AArr(ABool(true)), AArr(AStr("")), AArr(AStr("\x00")), AArr(AStr("\xff"), one))
	// objects: empty, prefix-related keys, same key different values
	vals = append(vals, AObj(), AObj("a", one), AObj("a", two), AObj("a", one, "b", two), AObj("ab", one), AObj("b", one),
		AObj("a", ANil()), AObj("a", AArr(one)), AObj("a", AObj()), AObj("", one), AObj("a", AStr("a")), AObj("a\x00", one))
	// random nested values
	g := &Gen{r: r, U: u, P: &Profile{Rich: true}}
	for ord := range u.nums {
		g.smallN = append(g.smallN, ord)
	}
	for len(vals) < n {
		vals = append(vals, g.value(3))
	}
	// distinct abstract values only (keeps matrices meaningful), stable order
	seen := map[string]bool{}
	var outv []V
	for _, v := range vals {
		// a string that begins with '$' is a field reference when it is handed to a criteria builder, which is how
		// this universe is compared: inside containers such strings are data and stay
		if v[0] == "str" {
			if b := toBytes(v[1]); len(b) > 0 && b[0] == '$' {
				continue
			}
		}
		k := string(marshalLine(E{"v": v}))
		if !seen[k] {
			seen[k] = true
			outv = append(outv, v)
		}
	}
	if len(outv) > n {
		// keep the hand-picked boundary values, trim from a shuffled tail
		head := outv[:len(outv)*0]
		idx := r.Perm(len(outv))
		sort.Ints(idx[:n])
		for _, i := range idx[:n] {
			head = append(head, outv[i])
		}
		outv = head
	}
	return outv
}

func sign(x int) int {
	if x < 0 {
		return -1
	} else if x > 0 {
		return 1
	}
	return 0
}

func auxValues(r *rand.Rand, seed int64, n int, emit func(E), stats map[string]int) {
	variants := [][2]string{{"general", "general"}, {"extremes", "general"}, {"floats", "wide"}, {"general", "far"}}
	v := variants[int(seed)%len(variants)]
	u := NewUniverse(v[0], v[1])
	vals := valueUniverse(r, u, n)
	n = len(vals)
	gos := make([]interface{}, n)
	for i, a := range vals {
		gos[i] = u.Gamma(a)
	}
	// (a) comparison signs through the public criteria API
	cmp := make([]interface{}, n)
	f := query.Field("f")
	for i := 0; i < n; i++ {
		row := make([]interface{}, n)
		doc := document.NewDocument()
		doc.Set("f", gos[i])
		for j := 0; j < n; j++ {
			s := 3
			safely(func() {
				gt := f.Gt(gos[j]).Satisfy(doc)
				lt := f.Lt(gos[j]).Satisfy(doc)
				eq := f.Eq(gos[j]).Satisfy(doc)
				ge := f.GtEq(gos[j]).Satisfy(doc)
				le := f.LtEq(gos[j]).Satisfy(doc)
				switch {
				case gt && !lt && !eq && ge && !le:
					s = 1
				case lt && !gt && !eq && le && !ge:
					s = -1
				case eq && !gt && !lt && ge && le:
					s = 0
				default:
					s = 2 // the five operators disagree with each other
				}
			})
			row[j] = s
			stats["pairs"]++
		}
		cmp[i] = row
	}
	// (b) key bytes through the real index code
	keys := make([][]byte, n)
	for i := 0; i < n; i++ {
		k, err := indexKey("c", "f", gos[i], "")
		if err != nil {
			k = []byte("ERR:" + err.Error())
		}
		keys[i] = k
	}
	key := make([]interface{}, n)
	pfx := make([]interface{}, n)
	for i := 0; i < n; i++ {
		kr := make([]interface{}, n)
		pr := make([]interface{}, n)
		for j := 0; j < n; j++ {
			kr[j] = sign(bytes.Compare(keys[i], keys[j]))
			p := 0
			if len(keys[i]) < len(keys[j]) && bytes.HasPrefix(keys[j], keys[i]) {
				p = 1
			}
			pr[j] = p
		}
		key[i], pfx[i] = kr, pr
	}
	keydom := make([]interface{}, n)
	for i, a := range vals {
		if u.keyDomain(a) {
			keydom[i] = 1
		} else {
			keydom[i] = 0
		}
	}
	// (c) the order a sorted query puts them in
	dir, _ := os.MkdirTemp(scratchBase(), "verif-values-")
	defer os.RemoveAll(dir)
	be := []string{"bolt", "badgermem"}[int(seed)%2]
	b, err := NewBackend(be, dir, nil)
	if err != nil {
		panic(err)
	}
	defer b.Destroy()
	b.db.CreateCollection("v")
	idOf := map[string]int{}
	var docs []*document.Document
	for i := range vals {
		id := bulkId(i)
		idOf[id] = i + 1
		d := document.NewDocument()
		d.Set("_id", id)
		d.Set("f", gos[i])
		docs = append(docs, d)
	}
	if err := b.db.Insert("v", docs...); err != nil {
		panic(err)
	}
	order := func(direction int) []interface{} {
		out := make([]interface{}, 0)
		ok, _ := safely(func() {
			res, err := b.db.FindAll(query.NewQuery("v").Sort(query.SortOption{Field: "f", Direction: direction}))
			if err != nil {
				return
			}
			for _, d := range res {
				out = append(out, idOf[d.ObjectId()])
			}
		})
		if !ok {
			return []interface{}{}
		}
		return out
	}
	line := E{"kind": "values", "table": v[0], "vals": vals, "cmp": cmp, "key": key, "pfx": pfx, "keydom": keydom,
		"sorted": order(1), "sortedDesc": order(-1), "backend": be}
	emit(line)
	stats["values"] = n
}

// ---------------------------------------------------------------- C16

func auxSatisfy(r *rand.Rand, seed int64, n int, emit func(E), stats map[string]int) {
	p := &Profile{Name: "satisfy", NumTable: "general", TimeTable: "general", Colls: 1, MaxDocs: 8, Rich: seed%2 == 0, W: weights(nil)}
	g0 := NewGen(seed, p)
	x0 := &Exec{U: g0.U}
	// integers up to the ends of int64 and uint64 (neighbours that one float64 cannot tell apart): every other
	// long membership list is drawn from them, documents included
	px := *p
	px.NumTable = "extremes"
	gx := NewGen(seed+7777, &px)
	xx := &Exec{U: gx.U}
	for i := 0; i < n; i++ {
		g, x := g0, x0
		if i%16 == 5 {
			g, x = gx, xx
		}
		var docs []V
		for k := 0; k < 4; k++ {
			docs = append(docs, g.doc(AStr(g.ids[k])))
		}
		g.focus = []string{"x", "xy", "arr", "n.a"}
		c := g.crit(3)
		if i%8 == 3 {
			// membership tests aimed at a document: Contains with the elements of its own array drawn
			// with repetition (more listed elements than the array holds), In with its own value of
			// the field among others
			for _, d := range docs {
				if arr, ok := ObjGet(d, "arr"); ok && arr[0] == "arr" && len(toList(arr[1])) > 0 {
					el := toList(arr[1])
					list := make([]interface{}, 0)
					for k := 0; k < len(el)+1+g.r.Intn(2); k++ {
						list = append(list, []interface{}{"lit", toV(el[g.r.Intn(len(el))])})
					}
					c = []interface{}{"un", "contains", B("arr"), []interface{}{"list", list}}
					if g.chance(0.3) {
						c = []interface{}{"not", c}
					}
					break
				}
			}
		}
		if i%8 == 5 {
			// long membership lists (an implementation may treat them differently from short ones): 16 to 40
			// numbers in every representation, with or without the value one of the documents holds
			f := g.pick([]string{"x", "xy"})
			var own V
			for _, d := range docs {
				if v, ok := ObjGet(d, f); ok && v[0] == "num" {
					own = v
					break
				}
			}
			with := g.chance(0.4)
			list := make([]interface{}, 0)
			for len(list) < 16+g.r.Intn(25) {
				ord := g.r.Intn(len(g.U.nums))
				if own != nil && !with && ord == toInt(own[1]) {
					continue
				}
				reps := g.U.Reps(ord)
				list = append(list, []interface{}{"lit", ANum(ord, reps[g.r.Intn(len(reps))])})
			}
			if own != nil && with {
				reps := g.U.Reps(toInt(own[1]))
				list[g.r.Intn(len(list))] = []interface{}{"lit", ANum(toInt(own[1]), reps[g.r.Intn(len(reps))])}
			}
			c = []interface{}{"un", "in", B(f), []interface{}{"list", list}}
			if g.chance(0.3) {
				c = []interface{}{"not", c}
			}
		}
		for _, d := range docs {
			obs := "panic"
			safely(func() {
				if x.gammaCrit(c).Satisfy(x.gammaDoc(d)) {
					obs = "true"
				} else {
					obs = "false"
				}
			})
			emit(E{"kind": "satisfy", "crit": c, "doc": d, "obs": obs})
			stats["satisfy/"+obs]++
		}
	}
}

// ---------------------------------------------------------------- C17

var errStopScan = errors.New("harness: stop")

func rangeToGo(u *Universe, rg []interface{}) *index.Range {
	conv := func(x interface{}) interface{} {
		v := toV(x)
		if v[0] == "nobound" {
			return nil
		}
		return u.Gamma(v)
	}
	return &index.Range{Start: conv(rg[0]), End: conv(rg[1]), StartIncluded: toInt(rg[2]) == 1, EndIncluded: toInt(rg[3]) == 1}
}

func rangeFromGo(u *Universe, rg *index.Range) []interface{} {
	conv := func(x interface{}) V {
		if x == nil {
			return V{"nobound"}
		}
		return u.Alpha(x)
	}
	b := func(x bool) int {
		if x {
			return 1
		}
		return 0
	}
	return []interface{}{conv(rg.Start), conv(rg.End), b(rg.StartIncluded), b(rg.EndIncluded)}
}

// boundary-rich values: duplicates, nil, mixed types
func scanValues(u *Universe) []V {
	if u.NumTable == "floats" {
		// boundary encodings: extremes, neighbours one ulp apart, values whose key ends in 0xFF
		vals := []V{ANil()}
		for ord := range u.nums {
			reps := u.Reps(ord)
			vals = append(vals, ANum(ord, reps[len(reps)-1]))
		}
		for ord := range u.times {
			vals = append(vals, ATime(ord, 0))
		}
		return append(vals, AStr(""), AStr("\xff"), AStr("\xff\xff"), ABool(true))
	}
	if u.NumTable == "extremes" {
		// the ends of int64 and uint64, as far apart as float64 keeps them apart (keys follow the order wherever
		// two numbers differ as float64)
		return []V{ANil(), ANum(0, "i"), ANum(3, "i"), ANum(4, "i"), ANum(5, "i"), ANum(5, "u"), ANum(7, "u"), ANum(8, "i"),
			ANum(12, "u"), ANum(15, "u"), AStr(""), AStr("a"), ABool(false), ATime(0, 0)}
	}
	if u.TimeTable == "far1970" {
		vals := []V{ANil(), ANum(8, "i"), AStr("a"), ABool(true)}
		for ord := range u.times {
			vals = append(vals, ATime(ord, ord%genZones))
		}
		return vals
	}
	return []V{ANil(), ANum(6, "i"), ANum(8, "i"), ANum(8, "f"), ANum(9, "f"), ANum(10, "i"), ANum(11, "u"), AStr(""), AStr("a"), AStr("a\x00"), AStr("ab"),
		AStr("a\xff\x01b"), AStr("a\x00\x01"), AStr("\xff\x01"),
		ABool(false), ABool(true), ATime(0, 0), ATime(3, 1), AArr(), AArr(ANum(8, "i")), AObj(), AObj("a", ANum(8, "i")),
		// nil as an element: it has a rank of its own inside containers too
		AArr(ANil()), AArr(ANil(), ANum(10, "i")), AObj("a", ANil())}
}

func validRange(s, e V, si, ei int) bool {
	if s[0] == "nobound" && e[0] == "nobound" {
		return si == 1 && ei == 1 // only the nil-only range
	}
	return true
}

func auxScan(r *rand.Rand, n int, emit func(E), stats map[string]int) {
	dir, _ := os.MkdirTemp(scratchBase(), "verif-scan-")
	defer os.RemoveAll(dir)
	for it := 0; it < n; it++ {
		u := NewUniverse("general", "general")
		if it%2 == 1 {
			u = NewUniverse("floats", "general")
		}
		if it%4 == 2 {
			u = NewUniverse("general", "far1970") // instants around and beyond what 64 bits of nanoseconds hold
		}
		if it%8 == 6 {
			u = NewUniverse("extremes", "general")
		}
		vals := scanValues(u)
		bounds := []V{V{"nobound"}} // a nil bound *is* the open end (or, when included, the value nil)
		for _, v := range vals {
			if v[0] != "nil" {
				bounds = append(bounds, v)
			}
		}
		be := []string{"bolt", "badger", "badgermem"}[it%3]
		b, err := NewBackend(be, dir, nil)
		if err != nil {
			panic(err)
		}
		// index content: up to 7 entries on field x, siblings on xy and in another collection
		m := r.Intn(8)
		entries := make([]interface{}, 0)
		tx, _ := b.st.Begin(true)
		// names of many lengths: key prefixes of different sizes
		coll := []string{"c", "cc", "todos", "a b", "customer_orders_archive", "üñí", "collection-with-a-rather-long-name"}[r.Intn(7)]
		field := []string{"x", "userId", "region", "n.a", "k", "a.b.c", "timestamp"}[r.Intn(7)]
		idx := index.CreateIndex(coll, field, index.SingleField, tx).(index.RangeIndex)
		sib := index.CreateIndex(coll, field+"y", index.SingleField, tx)
		oth := index.CreateIndex(coll+"c", field, index.SingleField, tx)
		for i := 0; i < m; i++ {
			v := vals[r.Intn(len(vals))]
			id := uuidPool[i]
			if err := idx.Add(id, u.Gamma(v), -1); err != nil {
				panic(err)
			}
			entries = append(entries, []interface{}{v, B(id)})
		}
		for i := 0; i < 3; i++ {
			sib.Add(uuidPool[8+i], u.Gamma(vals[r.Intn(len(vals))]), -1)
			oth.Add(uuidPool[8+i], u.Gamma(vals[r.Intn(len(vals))]), -1)
		}
		committed := it%2 == 0
		if committed {
			if err := tx.Commit(); err != nil {
				panic(err)
			}
			tx, _ = b.st.Begin(false)
			idx = index.CreateIndex(coll, field, index.SingleField, tx).(index.RangeIndex)
		}
		scans := 60
		for k := 0; k < scans; k++ {
			var rg []interface{}
			full := r.Intn(12) == 0
			if full {
				rg = []interface{}{V{"full"}}
			} else {
				for {
					s, e := bounds[r.Intn(len(bounds))], bounds[r.Intn(len(bounds))]
					// bounds that coincide with stored values are where inclusivity matters
					if len(entries) > 0 && r.Intn(10) < 6 {
						if v := toV(toList(entries[r.Intn(len(entries))])[0]); v[0] != "nil" {
							s = v
						}
					}
					if len(entries) > 0 && r.Intn(10) < 4 {
						if v := toV(toList(entries[r.Intn(len(entries))])[0]); v[0] != "nil" {
							e = v
						}
					}
					si, ei := r.Intn(2), r.Intn(2)
					if r.Intn(4) == 0 {
						e = s
					}
					if validRange(s, e, si, ei) {
						rg = []interface{}{s, e, si, ei}
						break
					}
				}
			}
			reverse := r.Intn(2)
			stop := []int{0, 0, 1, 2, 3}[r.Intn(5)]
			obs := make([]interface{}, 0)
			calls := 0
			errS := ""
			consumer := func(docId string) error {
				calls++
				obs = append(obs, B(docId))
				if stop > 0 && calls >= stop {
					return errStopScan
				}
				return nil
			}
			ok, msg := safely(func() {
				var err error
				if full {
					err = idx.Iterate(reverse == 1, consumer)
				} else {
					err = idx.IterateRange(rangeToGo(u, rg), reverse == 1, consumer)
				}
				if err != nil && !errors.Is(err, errStopScan) {
					errS = err.Error()
				}
				if err == nil && stop > 0 && calls >= stop {
					errS = "stop request swallowed"
				}
			})
			panicked := 0
			if !ok {
				errS = "panic: " + msg
				panicked = 1
			}
			phase := "same-tx"
			if committed {
				phase = "committed"
			}
			emit(E{"kind": "scan", "be": be, "phase": phase, "coll": coll, "field": field, "table": u.NumTable, "entries": entries, "range": rg, "reverse": reverse, "stop": stop,
				"obs": obs, "calls": calls, "err": errS, "panicked": panicked})
			stats["scan/"+be+"/"+phase]++
		}
		tx.Rollback()
		b.Destroy()
	}
}

func auxIntersect(r *rand.Rand, n int, emit func(E), stats map[string]int) {
	u := NewUniverse("general", "general")
	vals := scanValues(u)
	bounds := []V{V{"nobound"}} // a nil bound *is* the open end (or, when included, the value nil)
	for _, v := range vals {
		if v[0] != "nil" {
			bounds = append(bounds, v)
		}
	}
	var ranges [][]interface{}
	for _, s := range bounds {
		for _, e := range bounds {
			for si := 0; si < 2; si++ {
				for ei := 0; ei < 2; ei++ {
					if validRange(s, e, si, ei) {
						ranges = append(ranges, []interface{}{s, e, si, ei})
					}
				}
			}
		}
	}
	universe := make([]interface{}, 0)
	for _, v := range vals {
		universe = append(universe, v)
	}
	for _, v := range []V{ANum(0, "f"), ANum(7, "f"), ANum(12, "i"), AStr("a\x00\x00"), AStr("b"), ATime(1, 0), ATime(6, 0), AArr(ANum(8, "i"), ANil()), AObj("a", ANum(10, "i")), AObj("b", ANil())} {
		universe = append(universe, v)
	}
	b := func(x bool) int {
		if x {
			return 1
		}
		return 0
	}
	// the ranges where the two meanings of a nil bound meet, and the degenerate ones, are drawn far
	// more often than their share: the nil-only range, half-open ends, equal bounds
	var special [][]interface{}
	for _, rg := range ranges {
		s, e := toV(rg[0]), toV(rg[1])
		if s[0] == "nobound" || e[0] == "nobound" || fmt.Sprint(s) == fmt.Sprint(e) {
			special = append(special, rg)
		}
	}
	nilOnly := []interface{}{V{"nobound"}, V{"nobound"}, 1, 1}
	total := len(ranges) * len(ranges)
	for it := 0; it < n; it++ {
		k := r.Intn(total)
		r1, r2 := ranges[k/len(ranges)], ranges[k%len(ranges)]
		switch it % 8 {
		case 1:
			r1 = special[r.Intn(len(special))]
		case 2:
			r2 = special[r.Intn(len(special))]
		case 3:
			r1, r2 = special[r.Intn(len(special))], special[r.Intn(len(special))]
		case 4:
			r2 = nilOnly
		case 5:
			r1 = nilOnly
		}
		g1, g2 := rangeToGo(u, r1), rangeToGo(u, r2)
		var r3 []interface{}
		e1, e3 := 0, 0
		ok, msg := safely(func() {
			res := g1.Intersect(g2)
			r3 = rangeFromGo(u, res)
			e1 = b(g1.IsEmpty())
			e3 = b(res.IsEmpty())
		})
		if !ok {
			emit(E{"kind": "intersect", "r1": r1, "r2": r2, "r3": []interface{}{V{"unknown", "panic " + msg}, V{"nobound"}, 0, 0}, "empty1": 0, "empty3": 0, "universe": universe})
			continue
		}
		emit(E{"kind": "intersect", "r1": r1, "r2": r2, "r3": r3, "empty1": e1, "empty3": e3, "universe": universe})
		stats[fmt.Sprintf("intersect/empty1=%d/empty3=%d", e1, e3)]++
	}
	stats["ranges"] = len(ranges)
}

// ---------------------------------------------------------------- C15: store cursor contract

func auxCursor(r *rand.Rand, n int, emit func(E), stats map[string]int) {
	keyU := [][]byte{[]byte("a"), []byte("ab"), []byte("b"), []byte("b\x00"), []byte("c"), []byte("c\xff"), []byte("\x00"), []byte("\xff")}
	targets := append([][]byte{[]byte("\x00\x00"), []byte("aa"), []byte("bb"), []byte("\xff\xff"), []byte("b\x00\x00"), []byte("0"), {}}, keyU...)
	dir, _ := os.MkdirTemp(scratchBase(), "verif-cursor-")
	defer os.RemoveAll(dir)
	enc := func(kv map[string][]byte) []interface{} {
		out := make([]interface{}, 0)
		keys := make([]string, 0)
		for k := range kv {
			keys = append(keys, k)
		}
		sort.Strings(keys)
		for _, k := range keys {
			out = append(out, []interface{}{B(k), B(string(kv[k]))})
		}
		return out
	}
	val := func() []byte {
		switch r.Intn(3) {
		case 0:
			return nil // what clover writes for index entries
		case 1:
			return []byte("v")
		}
		return []byte("value\x00\xff")
	}
	for it := 0; it < n; it++ {
		be := []string{"bolt", "badger", "badgermem"}[it%3]
		b, err := NewBackend(be, dir, nil)
		if err != nil {
			panic(err)
		}
		committed := map[string][]byte{}
		tx, _ := b.st.Begin(true)
		for _, k := range keyU {
			if r.Intn(2) == 0 {
				v := val()
				committed[string(k)] = v
				if err := tx.Set(k, v); err != nil {
					panic(err)
				}
			}
		}
		if err := tx.Commit(); err != nil {
			panic(err)
		}
		for round := 0; round < 12; round++ {
			inTx := round%2 == 1
			tx, _ := b.st.Begin(inTx)
			pending := make([]interface{}, 0)
			if inTx {
				for w := 0; w < 1+r.Intn(3); w++ {
					k := keyU[r.Intn(len(keyU))]
					if r.Intn(3) == 0 {
						tx.Delete(k)
						pending = append(pending, []interface{}{"del", B(string(k))})
					} else {
						v := val()
						tx.Set(k, v)
						pending = append(pending, []interface{}{"set", B(string(k)), B(string(v))})
					}
				}
			}
			forward := r.Intn(2)
			target := targets[r.Intn(len(targets))]
			// one cursor is sought twice: it walks at most `steps` entries from the first target (reading each
			// item once or twice), then it is sought again and walks to the end
			target2 := targets[r.Intn(len(targets))]
			steps := []int{0, 1, 1, 2, 3, 50}[r.Intn(6)]
			twice := r.Intn(2) == 0
			obs, obs2 := make([]interface{}, 0), make([]interface{}, 0)
			errS := ""
			ok, msg := safely(func() {
				cur, err := tx.Cursor(forward == 1)
				if err != nil {
					errS = err.Error()
					return
				}
				defer cur.Close()
				walk := func(tgt []byte, max int, into *[]interface{}) bool {
					if err := cur.Seek(tgt); err != nil {
						errS = err.Error()
						return false
					}
					for n := 0; cur.Valid() && n < max; n++ {
						item, err := cur.Item()
						if err == nil && twice {
							item, err = cur.Item()
						}
						if err != nil {
							errS = err.Error()
							return false
						}
						*into = append(*into, []interface{}{B(string(item.Key)), B(string(item.Value))})
						if n+1 < max || max == 50 {
							cur.Next()
						}
					}
					return true
				}
				if walk(target, steps, &obs) {
					walk(target2, 50, &obs2)
				}
			})
			panicked := 0
			if !ok {
				errS = "panic: " + msg
				panicked = 1
			}
			gets := make([]interface{}, 0)
			for _, k := range keyU {
				// Get of keys with non-empty values, or absent keys (an empty value and "not found" are
				// not distinguished by the store interface)
				v, err := tx.Get(k)
				if err != nil {
					errS = "get: " + err.Error()
					continue
				}
				found := 0
				if v != nil {
					found = 1
				}
				gets = append(gets, []interface{}{B(string(k)), []interface{}{found, B(string(v))}})
			}
			tx.Rollback()
			// drop Gets of keys whose visible value is empty
			vis := map[string][]byte{}
			for k, v := range committed {
				vis[k] = v
			}
			for _, p := range pending {
				pl := p.([]interface{})
				if pl[0] == "set" {
					vis[string(toBytes(pl[1]))] = toBytes(pl[2])
				} else {
					delete(vis, string(toBytes(pl[1])))
				}
			}
			fg := make([]interface{}, 0)
			for _, gte := range gets {
				k := string(toBytes(gte.([]interface{})[0]))
				if v, ok := vis[k]; ok && len(v) == 0 {
					continue
				}
				fg = append(fg, gte)
			}
			phase := "later-tx"
			if inTx {
				phase = "writing-tx"
			}
			emit(E{"kind": "cursor", "be": be, "phase": phase, "kv": enc(committed), "pending": pending, "forward": forward,
				"target": B(string(target)), "steps": steps, "target2": B(string(target2)), "obs": obs, "obs2": obs2, "gets": fg, "err": errS, "panicked": panicked})
			stats["cursor/"+be+"/"+phase]++
		}
		b.Destroy()
	}
}

var _ = clover.ErrCollectionExist
var _ store.Store

// ---------------------------------------------------------------- C02: the planner's range derivation

// auxPlan runs the planner's own (exported) visitors on generated criteria, exactly as
// getIndexQueries chains them, and records which field was selected and which value range was
// derived for it.  TLC checks that the range is a superset of the values of every satisfying
// document of a boundary-rich universe, and that a range reported empty admits none.
func auxPlan(r *rand.Rand, seed int64, n int, emit func(E), stats map[string]int) {
	p := &Profile{Name: "plan", NumTable: "general", TimeTable: "general", Colls: 1, MaxDocs: 8, W: weights(nil)}
	g := NewGen(seed, p)
	x := &Exec{U: g.U}
	fieldsPool := []string{"x", "xy", "n.a", "s"}
	for it := 0; it < n; it++ {
		// indexed fields
		var indexed []string
		for _, f := range fieldsPool {
			if g.chance(0.5) {
				indexed = append(indexed, f)
			}
		}
		if len(indexed) == 0 {
			indexed = []string{"x"}
		}
		g.focus = indexed
		c := g.crit(3)
		info := map[string]*index.Info{}
		for _, f := range indexed {
			info[f] = &index.Info{Field: f, Type: index.SingleField}
		}
		var selected []interface{}
		ranges := make([]interface{}, 0)
		panicked := 0
		ok, msg := safely(func() {
			crit := x.gammaCrit(c)
			norm := crit.Accept(&clover.CriteriaNormalizeVisitor{})
			if norm == nil {
				return
			}
			flat := norm.(query.Criteria).Accept(&clover.NotFlattenVisitor{}).(query.Criteria)
			sel := flat.Accept(&clover.IndexSelectVisitor{Fields: info}).([]*index.Info)
			for _, s := range sel {
				selected = append(selected, B(s.Field))
			}
			if len(sel) == 0 {
				return
			}
			fr := flat.Accept(clover.NewFieldRangeVisitor([]string{sel[0].Field})).(map[string]*index.Range)
			for f, rg := range fr {
				empty := 0
				if rg.IsEmpty() {
					empty = 1
				}
				ranges = append(ranges, []interface{}{B(f), rangeFromGo(g.U, rg), empty})
			}
		})
		if !ok {
			panicked = 1
			stats["plan/panic:"+msg]++
		}
		if selected == nil {
			selected = []interface{}{}
		}
		// a universe of documents dense around the literals: every value of the value pool in the
		// selected field (and absent), other fields random
		docs := make([]interface{}, 0)
		vals := scanValues(g.U)
		for _, v := range vals {
			d := g.doc(AStr(g.ids[0]))
			for _, f := range indexed {
				if f == "n.a" {
					d = ObjSet(d, "n", AObj("a", v))
				} else {
					d = ObjSet(d, f, v)
				}
			}
			docs = append(docs, d)
		}
		docs = append(docs, g.doc(AStr(g.ids[0])), AObj("_id", AStr(g.ids[1])))
		idx := make([]interface{}, 0)
		for _, f := range indexed {
			idx = append(idx, B(f))
		}
		emit(E{"kind": "plan", "crit": c, "indexed": idx, "selected": selected, "ranges": ranges, "docs": docs, "panicked": panicked})
		stats[fmt.Sprintf("plan/selected=%d/ranges=%d", len(selected), len(ranges))]++
	}
}

// ---------------------------------------------------------------- C07: read / write sets (TraceRW.tla)

// auxRwset executes every operation of CloverConc's pool alone, on every small initial content,
// and records which keys its store transaction reads and writes.
func auxRwset(emit func(E), stats map[string]int) {
	ids := []string{uuidPool[0], uuidPool[1]}
	coll := "c"
	dir, _ := os.MkdirTemp(scratchBase(), "verif-rw-")
	defer os.RemoveAll(dir)
	prefixE := map[int][]byte{}
	for v := 1; v <= 2; v++ {
		k, _ := indexKey(coll, "x", int64(v), "")
		prefixE[v] = k
	}
	absKey := func(key []byte) []interface{} {
		ks := string(key)
		switch {
		case ks == "coll:"+coll:
			return []interface{}{"M"}
		case strings.HasPrefix(ks, "c:"+coll+";d:"):
			for i, id := range ids {
				if ks == "c:"+coll+";d:"+id {
					return []interface{}{"D", i + 1}
				}
			}
		case strings.HasPrefix(ks, "c:"+coll+";i:x;"):
			for v, pf := range prefixE {
				for i, id := range ids {
					if ks == string(pf)+id {
						return []interface{}{"E", v, i + 1}
					}
				}
			}
		}
		return nil
	}
	type opT []interface{}
	var ops []opT
	for i := 1; i <= 2; i++ {
		for v := 1; v <= 2; v++ {
			ops = append(ops, opT{"Insert", i, v}, opT{"UpdateById", i, v})
		}
		ops = append(ops, opT{"DeleteById", i})
	}
	for a := 1; a <= 2; a++ {
		for bb := 1; bb <= 2; bb++ {
			ops = append(ops, opT{"UpdateWhere", a, bb})
		}
		ops = append(ops, opT{"DeleteWhere", a})
	}
	ops = append(ops, opT{"CreateIndex"}, opT{"DropIndex"})

	project := func(b *Backend) E {
		tx, _ := b.st.Begin(false)
		defer tx.Rollback()
		cur, _ := tx.Cursor(true)
		defer cur.Close()
		docs := []interface{}{0, 0}
		ents := make([]interface{}, 0)
		idx, size := 0, -1
		cur.Seek([]byte{})
		for ; cur.Valid(); cur.Next() {
			it, _ := cur.Item()
			k := absKey(it.Key)
			if k == nil {
				continue
			}
			switch k[0] {
			case "M":
				var meta struct {
					Size    int
					Indexes []index.Info
				}
				json.Unmarshal(it.Value, &meta)
				size = meta.Size
				if len(meta.Indexes) > 0 {
					idx = 1
				}
			case "D":
				d, err := document.Decode(it.Value)
				if err == nil {
					if x, ok := d.Get("x").(int64); ok {
						docs[k[1].(int)-1] = int(x)
					}
				}
			case "E":
				ents = append(ents, []interface{}{k[1], k[2]})
			}
		}
		return E{"idx": idx, "size": size, "docs": docs, "ents": ents}
	}

	for _, be := range []string{"bolt", "badgermem"} {
		for ix := 0; ix <= 1; ix++ {
			for d1 := 0; d1 <= 2; d1++ {
				for d2 := 0; d2 <= 2; d2++ {
					for _, op := range ops {
						in := &injector{}
						b, err := NewBackend(be, dir, func(s store.Store) store.Store { return &wStore{inner: s, in: in} })
						if err != nil {
							panic(err)
						}
						b.db.CreateCollection(coll)
						if ix == 1 {
							b.db.CreateIndex(coll, "x")
						}
						for i, v := range []int{d1, d2} {
							if v > 0 {
								d := document.NewDocument()
								d.Set("_id", ids[i])
								d.Set("x", int64(v))
								b.db.Insert(coll, d)
							}
						}
						pre := project(b)
						reads, writes := make([]interface{}, 0), make([]interface{}, 0)
						seenR, seenW := map[string]bool{}, map[string]bool{}
						in.keylog = func(kind string, key []byte) {
							k := absKey(key)
							if k == nil || kind == "seek" {
								return
							}
							ks := fmt.Sprint(k)
							if kind == "get" || kind == "item" {
								if !seenR[ks] {
									seenR[ks] = true
									reads = append(reads, k)
								}
							} else if !seenW[ks] {
								seenW[ks] = true
								writes = append(writes, k)
							}
						}
						var err2 error
						xq := func(a int) *query.Query { return query.NewQuery(coll).Where(query.Field("x").Eq(int64(a))) }
						switch op[0].(string) {
						case "Insert":
							d := document.NewDocument()
							d.Set("_id", ids[op[1].(int)-1])
							d.Set("x", int64(op[2].(int)))
							err2 = b.db.Insert(coll, d)
						case "UpdateById":
							v := int64(op[2].(int))
							err2 = b.db.UpdateById(coll, ids[op[1].(int)-1], func(d *document.Document) *document.Document {
								c := d.Copy()
								c.Set("x", v)
								return c
							})
						case "DeleteById":
							err2 = b.db.DeleteById(coll, ids[op[1].(int)-1])
						case "UpdateWhere":
							err2 = b.db.Update(xq(op[1].(int)), map[string]interface{}{"x": int64(op[2].(int))})
						case "DeleteWhere":
							err2 = b.db.Delete(xq(op[1].(int)))
						case "CreateIndex":
							err2 = b.db.CreateIndex(coll, "x")
						case "DropIndex":
							err2 = b.db.DropIndex(coll, "x")
						}
						in.keylog = nil
						st := "ok"
						if err2 != nil {
							st = "err"
						}
						post := project(b)
						emit(E{"kind": "rwset", "be": be, "pre": pre, "op": []interface{}(op), "reads": reads, "writes": writes, "st": st, "post": post})
						stats["rwset/"+op[0].(string)+"/"+st]++
						b.Destroy()
					}
				}
			}
		}
	}
}


// ---------------------------------------------------------------- key layout (CloverKV)

var kvFieldPool = []string{"x", "xy", "n.a", "n", "d:", "i:x", "t:1", "v:", "c:a", "coll:", "\xc3\xa9", "a b", "d", "i", "_id"}

// auxKeys records, for one collection name, field name, id and value, every key the real code sets,
// deletes, reads and seeks while the collection, a document and an index are created, used and
// dropped; CloverKV says which keys those must be.
var kvPairName string

func auxKeys(r *rand.Rand, n int, emit func(E), stats map[string]int) {
	u := NewUniverse("general", "general")
	dir, _ := os.MkdirTemp(scratchBase(), "verif-kv-")
	defer os.RemoveAll(dir)
	alpha := "cdi:tv .-l"
	ids := append(append([]string{}, uuidPool...), altUuidPool...)
	vals := scanValues(u)
	for i := 0; i < n; i++ {
		name := namePool[r.Intn(len(namePool))]
		if r.Intn(2) == 0 {
			b := make([]byte, r.Intn(6))
			for j := range b {
				b[j] = alpha[r.Intn(len(alpha))]
			}
			name = string(b)
		}
		field := kvFieldPool[r.Intn(len(kvFieldPool))]
		// every few rounds a pair (N, "n.a") then (N + ".n", "a"): the same text once the two are glued with a dot
		if i%7 == 3 {
			field = "n.a"
			kvPairName = name
		} else if i%7 == 4 {
			name, field = kvPairName+".n", "a"
		}
		id := ids[r.Intn(len(ids))]
		val := vals[r.Intn(len(vals))]
		if field == "_id" {
			val = AStr(id)
		}
		gv := u.Gamma(val)
		in := &injector{}
		b, err := NewBackend([]string{"badgermem", "bolt"}[i%2], dir, func(s store.Store) store.Store { return &wStore{inner: s, in: in} })
		if err != nil {
			panic(err)
		}
		var cur E
		bytesList := func(m map[string]bool) []interface{} {
			out := make([]interface{}, 0, len(m))
			keys := make([]string, 0, len(m))
			for k := range m {
				keys = append(keys, k)
			}
			sortStrings(keys)
			for _, k := range keys {
				out = append(out, B(k))
			}
			return out
		}
		phases := make([]interface{}, 0)
		phase := func(ph string, fn func() error) {
			acc := map[string]map[string]bool{"set": {}, "delete": {}, "get": {}, "seek": {}, "item": {}}
			in.keylog = func(kind string, key []byte) { acc[kind][string(key)] = true }
			st := "ok"
			ok, msg := safely(func() {
				if err := fn(); err != nil {
					st = "err"
				}
			})
			in.keylog = nil
			if !ok {
				st = "panic:" + msg
			}
			cur = E{"ph": ph, "st": st, "sets": bytesList(acc["set"]), "dels": bytesList(acc["delete"]), "gets": bytesList(acc["get"]),
				"seeks": bytesList(acc["seek"]), "items": bytesList(acc["item"])}
			phases = append(phases, cur)
			stats["keys/"+ph+"/"+st]++
		}
		db := b.db
		doc := document.NewDocument()
		doc.Set("_id", id)
		if field != "_id" {
			doc.Set(field, gv)
		}
		phase("create", func() error { return db.CreateCollection(name) })
		phase("insert", func() error { return db.Insert(name, doc) })
		phase("createindex", func() error { return db.CreateIndex(name, field) })
		phase("scan", func() error { _, err := db.FindAll(query.NewQuery(name)); return err })
		phase("indexscan", func() error {
			_, err := db.FindAll(query.NewQuery(name).Where(query.Field(field).Eq(gv)))
			return err
		})
		phase("revscan", func() error {
			_, err := db.FindAll(query.NewQuery(name).Sort(query.SortOption{Field: field, Direction: -1}))
			return err
		})
		phase("list", func() error { _, err := db.ListCollections(); return err })
		phase("dropindex", func() error { return db.DropIndex(name, field) })
		phase("createindex", func() error { return db.CreateIndex(name, field) })
		phase("dropcollection", func() error { return db.DropCollection(name) })
		entry, _ := indexKey(name, field, doc.Get(field), id)
		emit(E{"kind": "keys", "name": B(name), "field": B(field), "id": B(id), "entry": B(string(entry)), "be": b.Name, "phases": phases})
		b.Destroy()
	}
}

// ---------------------------------------------------------------- C20: Close while the handle is in use

// auxCloseRace: several goroutines run operations in a loop - mostly operations that are built on other public
// operations - while one goroutine closes the handle at some moment.  One line per trial: whether every call
// returned (within 15 s), how many panicked, and whether a call succeeded after Close had returned.  CloverClose.tla
// says what the protocol between Begin and Close guarantees; TraceAux!CloseRaceOk reads the line against it.
func auxCloseRace(r *rand.Rand, n int, emit func(E), stats map[string]int) {
	dir, _ := os.MkdirTemp(scratchBase(), "verif-closerace-")
	defer os.RemoveAll(dir)
	for it := 0; it < n; it++ {
		be := []string{"bolt", "badger", "badgermem"}[it%3]
		b, err := NewBackend(be, dir, nil)
		if err != nil {
			panic(err)
		}
		db := b.db
		db.CreateCollection("c")
		db.CreateIndex("c", "x")
		for i := 0; i < 24; i++ {
			doc := document.NewDocument()
			doc.Set("x", int64(i%5))
			db.InsertOne("c", doc)
		}
		G := 4 + r.Intn(5)
		seeds := make([]int64, G)
		for i := range seeds {
			seeds[i] = r.Int63()
		}
		var wg sync.WaitGroup
		var mu sync.Mutex
		panics, okAfterClose := 0, 0
		var closedAt int64 // set (to 1) once Close has returned
		for g := 0; g < G; g++ {
			wg.Add(1)
			go func(g int) {
				defer wg.Done()
				rr := rand.New(rand.NewSource(seeds[g]))
				for i := 0; i < 150; i++ {
					func() {
						defer func() {
							if rec := recover(); rec != nil {
								mu.Lock()
								panics++
								mu.Unlock()
							}
						}()
						after := atomic.LoadInt64(&closedAt) == 1
						var vals []interface{}
						for k := 0; k < 30; k++ {
							vals = append(vals, rr.Intn(7))
						}
						q := query.NewQuery("c").Where(query.Field("x").In(vals...).Or(query.Field("x").Gt(rr.Intn(5))))
						var err error
						switch rr.Intn(8) {
						case 0:
							_, err = db.Count(q)
						case 1:
							_, err = db.Exists(q)
						case 2:
							_, err = db.FindFirst(q)
						case 3:
							err = db.Update(q, map[string]interface{}{"y": int64(i)})
						case 4:
							doc := document.NewDocument()
							doc.Set("x", int64(i))
							err = db.Save("c", doc)
						case 5:
							err = db.ForEach(q, func(*document.Document) bool { return true })
						default:
							_, err = db.FindAll(q.Sort(query.SortOption{Field: "x", Direction: -1}))
						}
						if err == nil && after {
							mu.Lock()
							okAfterClose++
							mu.Unlock()
						}
					}()
				}
			}(g)
		}
		time.Sleep(time.Duration(r.Intn(3000)) * time.Microsecond)
		closed := make(chan struct{})
		go func() {
			defer func() { recover(); close(closed) }()
			db.Close()
			atomic.StoreInt64(&closedAt, 1)
		}()
		done := make(chan struct{})
		go func() { wg.Wait(); close(done) }()
		blocked := 0
		select {
		case <-done:
		case <-time.After(15 * time.Second):
			blocked = 1
		}
		select {
		case <-closed:
		case <-time.After(15 * time.Second):
			blocked = 1
		}
		mu.Lock()
		emit(E{"kind": "closerace", "be": be, "goroutines": G, "blocked": blocked, "panics": panics, "okafterclose": okAfterClose})
		mu.Unlock()
		stats[fmt.Sprintf("closerace/%s/blocked=%d", be, blocked)]++
		if blocked == 1 {
			break // the goroutines of this trial are stuck for good: the process is left to the operating system
		}
		b.open = false
		if b.dir != "" {
			os.RemoveAll(b.dir)
		}
	}
}
