package main

// C07: concurrent histories.  Several goroutines use one DB handle; scheduling is perturbed at every
// store call (Gosched / short sleeps in the store wrapper).  Every call is recorded with a global
// ticket taken before it starts and another taken after it returns, so that real-time order is
// derived from tickets, never from wall-clock time.  TraceLin.tla decides whether one sequential
// order consistent with real time explains every observed result.

import (
	"bufio"
	"errors"
	"flag"
	"fmt"
	"os"
	"sort"
	"strings"
	"sync"
	"sync/atomic"

	badgerdb "github.com/dgraph-io/badger/v4"
	"github.com/ostafen/clover/v2/store"
)

func init() {
	extraCommands["conc"] = cmdConc
}

type concEvent struct {
	g    int
	e    E
	call int64
	ret  int64
	res  E
}

func cmdConc(args []string) {
	fs := flag.NewFlagSet("conc", flag.ExitOnError)
	seed := fs.Int64("seed", 1, "seed")
	n := fs.Int("n", 20, "histories")
	backends := fs.String("backends", "rotate", "backend per history")
	maxG := fs.Int("maxg", 4, "max goroutines")
	opsPer := fs.Int("ops", 3, "operations per goroutine")
	out := fs.String("out", "conc.ndjson", "output")
	statsOut := fs.String("stats", "", "stats")
	par := fs.Int("par", 4, "parallel histories")
	gated := fs.Bool("gated", false, "deterministic gated schedules instead of perturbed ones")
	sched := fs.String("sched", "", "file of model behaviours (MC_ConcEmit) to replay, one history each")
	raw := fs.Bool("raw", false, "no store decorator at all: the database runs on the adapter itself (code that asks the store for optional interfaces takes the path it takes in production)")
	family := fs.String("family", "", "force one family of racing programs in every history: index")
	fs.Parse(args)
	concRaw = *raw
	concFamily = *family
	var recs []*schedRecord
	if *sched != "" {
		recs = loadSchedules(*sched)
		*n = len(recs)
	}

	type result struct {
		lines [][]byte
		stats map[string]int
	}
	results := make([]result, *n)
	var wg sync.WaitGroup
	sem := make(chan struct{}, *par)
	for i := 0; i < *n; i++ {
		wg.Add(1)
		sem <- struct{}{}
		go func(i int) {
			defer wg.Done()
			defer func() { <-sem }()
			tseed := *seed*1000003 + int64(i)
			be := []string{"bolt", "badger", "badgermem"}[int(tseed)%3]
			if *backends != "rotate" {
				bs := strings.Split(*backends, ",")
				be = bs[i%len(bs)]
			}
			if recs != nil {
				results[i].lines, results[i].stats = runSched(recs[i], tseed)
			} else if *gated && i%3 == 2 {
				results[i].lines, results[i].stats = runBigBatch(tseed, be)
			} else if *gated {
				results[i].lines, results[i].stats = runGated(tseed, be)
			} else {
				results[i].lines, results[i].stats = runConc(tseed, be, *maxG, *opsPer)
			}
		}(i)
	}
	wg.Wait()
	f, err := os.Create(*out)
	if err != nil {
		panic(err)
	}
	w := bufio.NewWriterSize(f, 1<<20)
	total := map[string]int{}
	events := 0
	for _, r := range results {
		for _, l := range r.lines {
			w.Write(l)
			events++
		}
		for k, v := range r.stats {
			total[k] += v
		}
	}
	w.Flush()
	f.Close()
	if *statsOut != "" {
		os.WriteFile(*statsOut, marshalLine(E{"traces": *n, "events": events, "outcomes": total, "plan_kinds": planKindCounts()}), 0o644)
	}
	fmt.Printf("conc: seed=%d histories=%d lines=%d -> %s\n", *seed, *n, events, *out)
}

// program of one goroutine; documents and ids are drawn so that goroutines collide on purpose
func (g *Gen) concOp(c string, gi int) E {
	k := g.r.Intn(100)
	noWindow := func() []interface{} {
		bs := make([]interface{}, 0)
		if g.chance(0.7) {
			bs = append(bs, []interface{}{"where", g.crit(1)})
		}
		if g.chance(0.3) {
			bs = append(bs, []interface{}{"sort", []interface{}{[]interface{}{B("x"), []int{1, -1}[g.r.Intn(2)]}}})
		}
		return bs
	}
	if g.chance(0.18) { // the less common operations
		id := g.pick(g.ids)
		switch g.r.Intn(9) {
		case 0:
			return E{"op": "ReplaceById", "c": c, "id": B(id), "docs": []interface{}{g.doc(AStr(id))}}
		case 1:
			return E{"op": "Save", "c": c, "docs": []interface{}{g.doc(AStr(id))}}
		case 2:
			return E{"op": "FindById", "c": c, "id": B(id)}
		case 3:
			return E{"op": "ListIndexes", "c": c}
		case 4:
			return E{"op": "HasIndex", "c": c, "f": B(g.pick([]string{"x", "xy"}))}
		case 5:
			return E{"op": "Exists", "c": c, "q": noWindow()}
		case 6:
			return E{"op": "FindFirst", "c": c, "q": noWindow()}
		case 7:
			return E{"op": "ForEach", "c": c, "q": noWindow(), "j": g.r.Intn(3)}
		default:
			return E{"op": "ListCollections"}
		}
	}
	switch {
	case k < 22:
		n := 1 + g.r.Intn(3)
		docs := make([]interface{}, 0)
		noId := g.chance(0.3) // a batch that leaves its ids to clover: every goroutine draws from the same source of ids
		for i := 0; i < n; i++ {
			d := g.doc(AStr(g.pick(g.ids)))
			if noId {
				d = objWithout(d, "_id")
			}
			docs = append(docs, d)
		}
		// distinct ids inside one batch most of the time
		return E{"op": "Insert", "c": c, "docs": docs}
	case k < 32:
		return E{"op": "UpdateById", "c": c, "id": B(g.pick(g.ids)), "upd": []interface{}{"set", B("x"), g.smallNum()}}
	case k < 42:
		return E{"op": "Update", "c": c, "q": noWindow(), "upd": g.updateMap()}
	case k < 52:
		return E{"op": "UpdateFunc", "c": c, "q": noWindow(), "upd": []interface{}{[]string{"set", "setInPlace"}[g.r.Intn(2)], B("xy"), g.smallNum()}}
	case k < 58:
		return E{"op": "Delete", "c": c, "q": noWindow()}
	case k < 64:
		return E{"op": "DeleteById", "c": c, "id": B(g.pick(g.ids))}
	case k < 69:
		return E{"op": "CreateIndex", "c": c, "f": B(g.pick([]string{"x", "xy"}))}
	case k < 72:
		return E{"op": "DropIndex", "c": c, "f": B(g.pick([]string{"x", "xy"}))}
	case k < 90:
		return E{"op": "FindAll", "c": c, "q": noWindow()}
	default:
		return E{"op": "Count", "c": c, "q": noWindow()}
	}
}

var concRaw bool
var concFamily string

func runConc(seed int64, be string, maxG, opsPer int) ([][]byte, map[string]int) {
	p := &Profile{Name: "conc", NumTable: "general", TimeTable: "general", Colls: 1, MaxDocs: 6, Indexes: true, W: weights(nil), NoGenIds: true}
	g := NewGen(seed, p)
	c := g.colls[0]
	g.created[c] = true
	g.live[c] = map[string]bool{}
	g.idx[c] = map[string]bool{}
	g.focus = []string{"x", "xy"}
	dir, err := os.MkdirTemp(scratchBase(), "verif-conc-")
	if err != nil {
		panic(err)
	}
	defer os.RemoveAll(dir)
	in := &injector{hook: perturb(seed)}
	wrap := func(s store.Store) store.Store { return &wStore{inner: s, in: in} }
	if concRaw {
		wrap = nil
	}
	b, err := NewBackend(be, dir, wrap)
	if err != nil {
		panic(err)
	}
	defer b.Destroy()
	x := &Exec{U: g.U, FileDir: dir, Backends: []*Backend{b}}

	var ticket int64
	var mu sync.Mutex
	var evs []concEvent
	do := func(gi int, e E) {
		t1 := atomic.AddInt64(&ticket, 1)
		res := x.Run(b, e, nil)
		t2 := atomic.AddInt64(&ticket, 1)
		mu.Lock()
		evs = append(evs, concEvent{g: gi, e: e, call: t1, ret: t2, res: res})
		mu.Unlock()
	}
	// sequential prefix
	do(0, E{"op": "CreateCollection", "c": c})
	if g.chance(0.5) {
		do(0, E{"op": "CreateIndex", "c": c, "f": B("x")})
	}
	docs := make([]interface{}, 0)
	for i := 0; i < 4; i++ {
		d := g.doc(AStr(g.ids[i]))
		d = ObjSet(d, "x", ANum(g.smallN[1+i%2], "i"))
		docs = append(docs, d)
	}
	do(0, E{"op": "Insert", "c": c, "docs": docs})

	G := 2 + g.r.Intn(maxG-1)
	progs := make([][]E, G)
	for gi := 0; gi < G; gi++ {
		for k := 0; k < opsPer; k++ {
			progs[gi] = append(progs[gi], g.concOp(c, gi))
		}
	}
	// catalog races: two goroutines create the same new collection and fill it
	if g.chance(0.3) && G >= 2 {
		name := "second"
		progs[0][0] = E{"op": "CreateCollection", "c": name}
		progs[1][0] = E{"op": "CreateCollection", "c": name}
		if len(progs[1]) > 1 {
			progs[1][1] = E{"op": "Insert", "c": name, "docs": []interface{}{g.doc(AStr(g.ids[0]))}}
		}
		if len(progs[0]) > 1 {
			progs[0][1] = E{"op": "CreateIndex", "c": name, "f": B("x")}
		}
		if G >= 3 {
			progs[2][0] = E{"op": "ListCollections"}
			if len(progs[2]) > 1 && g.chance(0.5) {
				progs[2][1] = E{"op": "DropCollection", "c": name}
			}
		}
	}
	// a compound creation racing with a plain one: an import into a name that another goroutine creates and fills
	if g.chance(0.2) && G >= 2 {
		name := "imported"
		// the exported source holds JSON-representable documents only (C19's domain)
		do(0, E{"op": "CreateCollection", "c": "jsrc"})
		do(0, E{"op": "Insert", "c": "jsrc", "docs": []interface{}{g.jsonDoc(AStr(g.ids[0])), g.jsonDoc(AStr(g.ids[1]))}})
		do(0, E{"op": "Export", "c": "jsrc", "path": "conc.json"})
		progs[0][0] = E{"op": "Import", "c": name, "path": "conc.json"}
		progs[1][0] = E{"op": "CreateCollection", "c": name}
		if len(progs[1]) > 1 {
			progs[1][1] = E{"op": "CreateIndex", "c": name, "f": B("k")}
		}
		if G >= 3 {
			progs[2][0] = E{"op": "CreateByQuery", "name": name, "c": "jsrc", "q": []interface{}{}}
		}
	}
	// predicate-based writers whose predicates read what the other one writes (write-skew shape):
	// "set x := b where x = a" against "set x := a where x = b"
	if g.chance(0.35) {
		a, bb := ANum(g.smallN[1], "i"), ANum(g.smallN[2], "i")
		mk := func(from, to V) E {
			g.stamp++
			return E{"op": "Update", "c": c, "q": []interface{}{[]interface{}{"where", []interface{}{"un", "eq", B("x"), []interface{}{"lit", from}}}},
				"upd": []interface{}{"setall", []interface{}{[]interface{}{B("u"), AStr(fmt.Sprintf("op%d", g.stamp))}, []interface{}{B("x"), to}}}}
		}
		progs[0][0] = mk(a, bb)
		progs[1][0] = mk(bb, a)
	}
	// index catalog races: goroutines create (and drop) the index on one field that does not exist yet at the same
	// moment; exactly one creation may succeed, and what the catalog and the index hold afterwards is what one
	// order of the calls leaves
	if (g.chance(0.15) || concFamily == "index") && G >= 2 {
		f := g.pick([]string{"s", "k", "n.a", "xy"})
		for gi := 0; gi < G; gi++ {
			progs[gi][0] = E{"op": "CreateIndex", "c": c, "f": B(f)}
			if len(progs[gi]) > 1 {
				switch (gi + g.r.Intn(2)) % 4 {
				case 0:
					progs[gi][1] = E{"op": "DropIndex", "c": c, "f": B(f)}
				case 1:
					progs[gi][1] = E{"op": "ListIndexes", "c": c}
				case 2:
					progs[gi][1] = E{"op": "HasIndex", "c": c, "f": B(f)}
				}
			}
		}
		if G >= 3 && g.chance(0.5) {
			progs[2][0] = E{"op": "Insert", "c": c, "docs": []interface{}{g.doc(AStr(g.pick(g.ids)))}}
		}
	}
	// point reads against writers of the same documents: what a read returns is one of the versions that were
	// current between its call and its return - also if it decodes what it read after its transaction has ended
	if g.chance(0.2) || concFamily == "pointreads" {
		for gi := 0; gi < G; gi++ {
			for k := range progs[gi] {
				id := g.ids[g.r.Intn(4)]
				if gi == 0 || (gi == 1 && G > 2) {
					progs[gi][k] = E{"op": "FindById", "c": c, "id": B(id)}
					continue
				}
				switch g.r.Intn(4) {
				case 0:
					progs[gi][k] = E{"op": "ReplaceById", "c": c, "id": B(id), "docs": []interface{}{g.doc(AStr(id))}}
				case 1:
					progs[gi][k] = E{"op": "Insert", "c": c, "docs": []interface{}{g.doc(AStr(g.pick(g.ids)))}}
				default:
					progs[gi][k] = E{"op": "UpdateById", "c": c, "id": B(id), "upd": []interface{}{"set", B("x"), g.smallNum()}}
				}
			}
		}
	}
	// one source of ids for every goroutine and every handle: all goroutines insert batches that leave their ids to clover
	if g.chance(0.2) || concFamily == "ids" {
		for gi := 0; gi < G; gi++ {
			for k := 0; k < len(progs[gi]) && k < 2; k++ {
				var docs []interface{}
				for i := 0; i < 2+g.r.Intn(3); i++ {
					docs = append(docs, objWithout(g.doc(AStr(g.ids[0])), "_id"))
				}
				progs[gi][k] = E{"op": "Insert", "c": c, "docs": docs}
			}
		}
	}
	// process-wide state behind criteria: every goroutine evaluates Like criteria with patterns nobody has used
	// before (and a few that everybody uses), through reads and through the selection of bulk writes
	if g.chance(0.3) {
		for gi := 0; gi < G; gi++ {
			for k := range progs[gi] {
				if !g.chance(0.75) {
					continue
				}
				g.stamp++
				lit := fmt.Sprintf("%s%d.%d", g.pick([]string{"a", "he", "", "o w"}), seed%100000, g.stamp)
				if g.chance(0.25) {
					lit = g.pick([]string{"a", "hello", "b"})
				}
				kind := g.pick([]string{"any", "exact", "prefix", "suffix", "contains"})
				q := []interface{}{[]interface{}{"where", []interface{}{"un", "like", B(g.pick([]string{"s", "xy", "n.b"})), []interface{}{"pat", kind, B(lit)}}}}
				switch g.r.Intn(6) {
				case 0:
					progs[gi][k] = E{"op": "Count", "c": c, "q": q}
				case 1:
					progs[gi][k] = E{"op": "Delete", "c": c, "q": q}
				case 2:
					progs[gi][k] = E{"op": "Update", "c": c, "q": q, "upd": g.updateMap()}
				default:
					progs[gi][k] = E{"op": "FindAll", "c": c, "q": q}
				}
			}
		}
	}
	// the handle is closed while the others use it: Close takes effect at one instant, calls before it
	// behave as ever, calls after it fail - and every call returns
	if concFamily == "close" {
		// the others mostly run operations that are built on other public operations (FindAll on IterateDocs, Exists on
		// FindFirst on FindAll, Update on UpdateFunc, Save on Insert / ReplaceById), with criteria that take a while
		// to prepare: whatever clover does between entering the outer and the inner operation, Close may fall there
		for gi := 0; gi < G-1; gi++ {
			for k := range progs[gi] {
				if g.chance(0.25) {
					continue
				}
				list := make([]interface{}, 0)
				for len(list) < 24+g.r.Intn(16) {
					list = append(list, []interface{}{"lit", g.smallNum()})
				}
				q := []interface{}{[]interface{}{"where", []interface{}{"or", g.crit(2), []interface{}{"un", "in", B("x"), []interface{}{"list", list}}}}}
				switch g.r.Intn(7) {
				case 0:
					progs[gi][k] = E{"op": "Count", "c": c, "q": q}
				case 1:
					progs[gi][k] = E{"op": "Exists", "c": c, "q": q}
				case 2:
					progs[gi][k] = E{"op": "FindFirst", "c": c, "q": q}
				case 3:
					progs[gi][k] = E{"op": "Update", "c": c, "q": q, "upd": g.updateMap()}
				case 4:
					progs[gi][k] = E{"op": "Save", "c": c, "docs": []interface{}{g.doc(AStr(g.pick(g.ids)))}}
				default:
					progs[gi][k] = E{"op": "FindAll", "c": c, "q": q}
				}
			}
		}
		k := g.r.Intn(len(progs[G-1]))
		progs[G-1] = append(append(append([]E{}, progs[G-1][:k]...), E{"op": "Close"}), progs[G-1][k:]...)
	}
	var wg sync.WaitGroup
	start := make(chan struct{})
	for gi := 0; gi < G; gi++ {
		wg.Add(1)
		go func(gi int) {
			defer wg.Done()
			<-start
			for _, e := range progs[gi] {
				do(gi+1, e)
			}
		}(gi)
	}
	close(start)
	wg.Wait()
	in.hook = nil
	if concFamily == "close" {
		return concLines(evs, nil, seed, be, G)
	}
	audit := x.Audit(b)

	return concLines(evs, audit, seed, be, G)
}

// concLines renders a history: call and return events in ticket order
func concLines(evs []concEvent, audit E, seed int64, be string, G int) ([][]byte, map[string]int) {
	type item struct {
		t    int64
		call bool
		ev   *concEvent
	}
	var items []item
	for i := range evs {
		items = append(items, item{evs[i].call, true, &evs[i]}, item{evs[i].ret, false, &evs[i]})
	}
	sort.Slice(items, func(i, j int) bool { return items[i].t < items[j].t })
	pos := map[int64]int{}
	for i, it := range items {
		pos[it.t] = i + 2 // line numbers inside this history; line 1 is the Reset line
	}
	stats := map[string]int{}
	var lines [][]byte
	lines = append(lines, marshalLine(E{"t": "reset", "op": "Reset", "seed": seed, "backends": be, "goroutines": G}))
	for _, it := range items {
		if it.call {
			line := E{"t": "call", "g": it.ev.g, "retat": pos[it.ev.ret]}
			for k, v := range it.ev.e {
				line[k] = v
			}
			line["res"] = it.ev.res
			lines = append(lines, marshalLine(line))
		} else {
			lines = append(lines, marshalLine(E{"t": "ret", "g": it.ev.g, "op": it.ev.e["op"]}))
			stats[fmt.Sprintf("%v/%v/%v", it.ev.e["op"], it.ev.res["st"], it.ev.res["err"])]++
		}
	}
	if audit != nil {
		lines = append(lines, marshalLine(E{"t": "audit", "op": "FinalAudit", "audit": audit}))
	}
	stats[fmt.Sprintf("goroutines=%d", G)]++
	return lines, stats
}

// runGated is a deterministic schedule: one bulk update holds its transaction open (gate in its
// first callback) while a point update moves another document into its selection and a reader that
// starts afterwards observes the collection; then the bulk update is released.  Under snapshot
// isolation with invisible index phantoms this is the shape that is serializable but not
// linearizable.
func runGated(seed int64, be string) ([][]byte, map[string]int) {
	p := &Profile{Name: "conc", NumTable: "general", TimeTable: "general", Colls: 1, MaxDocs: 6, Indexes: true, W: weights(nil), NoGenIds: true}
	g := NewGen(seed, p)
	c := g.colls[0]
	dir, err := os.MkdirTemp(scratchBase(), "verif-gated-")
	if err != nil {
		panic(err)
	}
	defer os.RemoveAll(dir)
	b, err := NewBackend(be, dir, nil)
	if err != nil {
		panic(err)
	}
	defer b.Destroy()
	gt := &gate{started: make(chan struct{}), release: make(chan struct{})}
	x := &Exec{U: g.U, FileDir: dir, Backends: []*Backend{b}, Gate: gt}
	var ticket int64
	var mu sync.Mutex
	var evs []concEvent
	do := func(gi int, e E) {
		t1 := atomic.AddInt64(&ticket, 1)
		res := x.Run(b, e, nil)
		t2 := atomic.AddInt64(&ticket, 1)
		mu.Lock()
		evs = append(evs, concEvent{g: gi, e: e, call: t1, ret: t2, res: res})
		mu.Unlock()
	}
	va, vb, vc := ANum(g.smallN[1], "i"), ANum(g.smallN[2], "i"), ANum(g.smallN[3], "i")
	do(0, E{"op": "CreateCollection", "c": c})
	if seed%3 != 0 {
		do(0, E{"op": "CreateIndex", "c": c, "f": B("x")})
	}
	// the moved document's old value is not adjacent to the scanned value (a scan reads one entry past its range)
	docs := []interface{}{AObj("_id", AStr(g.ids[0]), "x", va), AObj("_id", AStr(g.ids[1]), "x", vc), AObj("_id", AStr(g.ids[2]), "x", vb)}
	do(0, E{"op": "Insert", "c": c, "docs": docs})
	where := []interface{}{[]interface{}{"where", []interface{}{"un", "eq", B("x"), []interface{}{"lit", va}}}}
	done := make(chan struct{})
	go func() {
		do(1, E{"op": "UpdateFunc", "c": c, "q": where, "upd": []interface{}{"set", B("y"), va}, "gate": 1})
		close(done)
	}()
	select {
	case <-gt.started:
		do(2, E{"op": "UpdateById", "c": c, "id": B(g.ids[1]), "upd": []interface{}{"set", B("x"), va}})
		do(3, E{"op": "FindAll", "c": c, "q": where})
		close(gt.release)
	case <-done: // the selection was empty: nothing was gated
	}
	<-done
	audit := x.Audit(b)
	return concLines(evs, audit, seed, be, 3)
}

func isConflict(err error) bool   { return errors.Is(err, badgerdb.ErrConflict) }
func isStoreLimit(err error) bool { return errors.Is(err, badgerdb.ErrTxnTooBig) }

// runBigBatch: one insert batch of about 11 MB (beyond badger's transaction size limit) while a
// reader keeps listing the collection: the reader sees the batch entirely or not at all, and a batch
// the store refuses leaves nothing behind.
func runBigBatch(seed int64, be string) ([][]byte, map[string]int) {
	p := &Profile{Name: "conc", NumTable: "general", TimeTable: "general", Colls: 1, MaxDocs: 6, Indexes: true, W: weights(nil), NoGenIds: true}
	g := NewGen(seed, p)
	c := g.colls[0]
	dir, err := os.MkdirTemp(scratchBase(), "verif-big-")
	if err != nil {
		panic(err)
	}
	defer os.RemoveAll(dir)
	b, err := NewBackend(be, dir, nil)
	if err != nil {
		panic(err)
	}
	defer b.Destroy()
	x := &Exec{U: g.U, FileDir: dir, Backends: []*Backend{b}}
	var ticket int64
	var mu sync.Mutex
	var evs []concEvent
	do := func(gi int, e E) {
		t1 := atomic.AddInt64(&ticket, 1)
		res := x.Run(b, e, nil)
		t2 := atomic.AddInt64(&ticket, 1)
		mu.Lock()
		evs = append(evs, concEvent{g: gi, e: e, call: t1, ret: t2, res: res})
		mu.Unlock()
	}
	do(0, E{"op": "CreateCollection", "c": c})
	do(0, E{"op": "Insert", "c": c, "docs": []interface{}{AObj("_id", AStr(bulkId(100000)), "x", g.smallNum())}})
	n := 165 + g.r.Intn(15)
	docs := make([]interface{}, 0)
	for i := 0; i < n; i++ {
		docs = append(docs, AObj("_id", AStr(bulkId(i)), "p", APad(65536)))
	}
	if seed%2 == 0 { // an offending document at the end
		docs = append(docs, AObj("_id", AStr(bulkId(0))))
	}
	var wg sync.WaitGroup
	stop := make(chan struct{})
	wg.Add(2)
	go func() {
		defer wg.Done()
		do(1, E{"op": "Insert", "c": c, "docs": docs})
		close(stop)
	}()
	go func() {
		defer wg.Done()
		for i := 0; i < 40; i++ {
			select {
			case <-stop:
				return
			default:
			}
			do(2, E{"op": "Count", "c": c, "q": []interface{}{[]interface{}{"where", []interface{}{"un", "exists", B("_id"), []interface{}{"none"}}}}})
		}
	}()
	wg.Wait()
	do(0, E{"op": "Count", "c": c, "q": []interface{}{}})
	audit := x.Audit(b)
	return concLines(evs, audit, seed, be, 2)
}
