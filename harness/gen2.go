package main

// Structured histories: twin collections (C02), multi-page bulk operations (C03),
// export/import (C19), close/reopen (C05, C20).

import (
	"fmt"
	"sort"
)

// ---------------------------------------------------------------- twins (C02)

// HistoryTwins mirrors every write over several collections that differ only in their indexes
// (none / filter field / sort field / unrelated field / all incl. prefix-named siblings), creating
// the indexes before, between or after the writes, and aims every query at all of them.
func (g *Gen) HistoryTwins() []E {
	k := g.P.Twins
	twins := g.colls[:k]
	ffield := g.pick([]string{"x", "xy", "n.a", "s", "t"})
	sfield := g.pick([]string{"x", "xy", "n.a", "s", "t", "k"})
	sets := [][]string{{}, {ffield}, {sfield}, {"b"}, {"x", "xy", "n", "n.a", "s", "t", "k"}}
	when := make([]int, k) // 0: before the data, 1: between, 2: after
	for i := range when {
		when[i] = g.r.Intn(3)
	}
	var evs []E
	for _, c := range twins {
		g.created[c] = true
		g.live[c] = map[string]bool{}
		g.idx[c] = map[string]bool{}
		evs = append(evs, E{"op": "CreateCollection", "c": c})
	}
	mkIdx := func(phase int) {
		for i, c := range twins {
			if when[i] != phase {
				continue
			}
			for _, f := range sets[i%len(sets)] {
				g.idx[c][f] = true
				evs = append(evs, E{"op": "CreateIndex", "c": c, "f": B(f)})
			}
		}
	}
	g.focus = []string{ffield, sfield, "x", "xy"}
	// the generator aims its choices (criteria fields, update paths) at the first twin: let it
	// believe that one has every index some twin has
	for i := range twins {
		for _, f := range sets[i%len(sets)] {
			g.idx[twins[0]][f] = true
		}
	}
	mirror := func(e E) {
		for _, c := range twins {
			m := E{}
			for kk, v := range e {
				m[kk] = v
			}
			m["c"] = c
			evs = append(evs, m)
		}
	}
	writes := func(n int) {
		c0 := twins[0]
		for i := 0; i < n; i++ {
			op := g.pick([]string{"Insert", "Insert", "Insert", "UpdateById", "ReplaceById", "DeleteById", "Update", "UpdateFunc", "Delete", "UpdateById"})
			save := g.P.Invalid
			g.P.Invalid = 0.02
			e := g.eventFor(op, c0)
			g.P.Invalid = save
			// twins must receive identical documents: ids are always supplied
			if docs, ok := e["docs"]; ok {
				fixed := make([]interface{}, 0)
				for _, d := range toList(docs) {
					dv := toV(d)
					if id, has := ObjGet(dv, "_id"); !has || (id[0] == "str" && len(toBytes(id[1])) == 0) {
						free := g.freeIds(c0)
						if len(free) == 0 {
							continue
						}
						dv = ObjSet(dv, "_id", AStr(free[0]))
						g.noteInsert(c0, free[0])
					}
					fixed = append(fixed, dv)
				}
				e["docs"] = fixed
			}
			mirror(e)
		}
	}
	reads := func(n int) {
		for i := 0; i < n; i++ {
			op := g.pick([]string{"FindAll", "FindAll", "Count", "Derived", "FindAll"})
			mirror(g.eventFor(op, twins[0]))
		}
	}
	// a systematic sweep through every index some twin has: ordered scans in both directions and
	// range scans around a stored value
	sweep := func() {
		seen := map[string]bool{}
		for _, set := range sets {
			for _, f := range set {
				if seen[f] {
					continue
				}
				seen[f] = true
				v := g.fieldValue(f)
				mirror(E{"op": "FindAll", "c": twins[0], "q": []interface{}{[]interface{}{"sort", []interface{}{[]interface{}{B(f), []int{1, -1}[g.r.Intn(2)]}}}}})
				mirror(E{"op": "Count", "c": twins[0], "q": []interface{}{[]interface{}{"where", []interface{}{"un", []string{"gte", "lte", "eq"}[g.r.Intn(3)], B(f), []interface{}{"lit", v}}}}})
			}
		}
	}
	mkIdx(0)
	writes(6 + g.r.Intn(5))
	mkIdx(1)
	reads(3)
	writes(4 + g.r.Intn(4))
	mkIdx(2)
	reads(6 + g.r.Intn(4))
	writes(3)
	reads(3)
	sweep()
	// a twin with several indexes loses the one created last: the others were maintained all along, and answer
	for i, c := range twins {
		set := sets[i%len(sets)]
		if len(set) < 2 {
			continue
		}
		last := set[len(set)-1]
		delete(g.idx[c], last)
		evs = append(evs, E{"op": "DropIndex", "c": c, "f": B(last)})
		for _, f := range set[:len(set)-1] {
			if len(set) > 3 && !g.chance(0.5) {
				continue
			}
			v := g.fieldValue(f)
			mirror(E{"op": "FindAll", "c": twins[0], "q": []interface{}{[]interface{}{"sort", []interface{}{[]interface{}{B(f), []int{1, -1}[g.r.Intn(2)]}, []interface{}{B("_id"), 1}}}}})
			mirror(E{"op": "Count", "c": twins[0], "q": []interface{}{[]interface{}{"where", []interface{}{"un", []string{"gte", "lte"}[g.r.Intn(2)], B(f), []interface{}{"lit", v}}}}})
		}
	}
	// documents that lack the filtered / indexed field next to documents that hold nil there, alternating along the
	// ids, with a second sort key that runs against the ids: sorts on (field, k) in every combination of directions
	if free := g.freeIds(twins[0]); len(free) >= 4 {
		sort.Strings(free)
		if len(free) > 6 {
			free = free[:6]
		}
		var docs []interface{}
		for i, id := range free {
			kv := []interface{}{"_id", AStr(id), "k", ANum(g.smallN[(len(free)-i)%len(g.smallN)], "i")}
			if i%2 == 0 {
				kv = append(kv, ffield, ANil())
			}
			d := AObj()
			for j := 0; j+1 < len(kv); j += 2 {
				d = ObjSet(d, kv[j].(string), kv[j+1].(V))
			}
			docs = append(docs, d)
			g.noteInsert(twins[0], id)
		}
		mirror(E{"op": "Insert", "c": twins[0], "docs": docs})
		for _, d1 := range []int{1, -1} {
			for _, d2 := range []int{1, -1} {
				q := []interface{}{[]interface{}{"sort", []interface{}{[]interface{}{B(ffield), d1}, []interface{}{B("k"), d2}}}}
				mirror(E{"op": "FindAll", "c": twins[0], "q": q})
			}
		}
		q := []interface{}{[]interface{}{"sort", []interface{}{[]interface{}{B(ffield), 1}, []interface{}{B("k"), 1}, []interface{}{B("_id"), 1}}}, []interface{}{"limit", 2}}
		mirror(E{"op": "Delete", "c": twins[0], "q": q, "audit": true})
	}
	return evs
}

// eventFor is event() aimed at a given collection.
func (g *Gen) eventFor(op, c string) E {
	saved := g.colls
	savedCreated := g.created
	g.colls = []string{c}
	g.created = map[string]bool{c: true}
	e := g.event(op)
	g.colls = saved
	g.created = savedCreated
	return e
}

// ---------------------------------------------------------------- bulk (C03)

func bulkId(i int) string {
	// spread over the key space so that insertion order differs from key order
	h := uint32(i) * 2654435761
	return fmt.Sprintf("%08x-0000-4000-8000-%012x", h, i)
}

// HistoryBulk builds one multi-page collection and applies one bulk operation to it.
func (g *Gen) HistoryBulk(size int) []E {
	c := g.colls[0]
	var evs []E
	evs = append(evs, E{"op": "CreateCollection", "c": c, "audit": false})
	idxSet := [][]string{{}, {"x"}, {"k"}, {"x", "k"}}[g.r.Intn(4)]
	// one history in five: two indexes, a conjunction that restricts both indexed fields in the same way and a
	// window without a sort - the specification leaves the selection open, FindAll and the bulk operation that
	// follows it must make the same one (InvC03Pair), on every backend (InvBackendsAgree)
	sameChoice := size >= 7 && size <= 350 && g.chance(0.35)
	if sameChoice {
		idxSet = []string{"x", "k"}
	}
	before := g.chance(0.5)
	if before {
		for _, f := range idxSet {
			evs = append(evs, E{"op": "CreateIndex", "c": c, "f": B(f), "audit": false})
		}
	}
	pad := []int{0, 16, 40, 120, 300}[g.r.Intn(5)]
	nvals := len(g.smallN)
	// large collections: often one value for every x, so that a query on x selects (nearly) everything
	// and an update of x moves every selected document out of (or within) the selection
	uniform := size >= 1000 && g.chance(0.7)
	batch := make([]interface{}, 0)
	flush := func() {
		if len(batch) > 0 {
			evs = append(evs, E{"op": "Insert", "c": c, "docs": batch, "audit": false})
			batch = make([]interface{}, 0)
		}
	}
	for i := 0; i < size; i++ {
		kv := []interface{}{"_id", AStr(bulkId(i))}
		if uniform {
			kv = append(kv, "x", ANum(g.smallN[1], "i"))
		} else if g.chance(0.95) {
			kv = append(kv, "x", ANum(g.smallN[(i*7+g.r.Intn(2))%nvals], "i"))
		}
		kv = append(kv, "k", ANum(g.smallN[i%nvals], "i"))
		if pad > 0 {
			kv = append(kv, "p", APad(pad))
		}
		batch = append(batch, AObj(kv...))
		if len(batch) == 100 {
			flush()
		}
	}
	flush()
	if !before {
		for _, f := range idxSet {
			evs = append(evs, E{"op": "CreateIndex", "c": c, "f": B(f), "audit": false})
		}
	}
	// the query: filters and/or sorts on the field being rewritten, or on another one
	v := ANum(g.smallN[g.r.Intn(nvals)], "i")
	var q []interface{}
	byId := false
	switch g.r.Intn(8) {
	case 7: // one document, named by its _id - and a window that may leave it out
		q = []interface{}{}
		if size > 0 {
			byId = true
			q = []interface{}{[]interface{}{"where", []interface{}{"un", "eq", B("_id"), []interface{}{"lit", AStr(bulkId(g.r.Intn(size)))}}}}
			switch g.r.Intn(4) {
			case 0:
				q = append(q, []interface{}{"skip", 1})
			case 1:
				q = append(q, []interface{}{"sort", []interface{}{[]interface{}{B("x"), 1}}}, []interface{}{"skip", 1}, []interface{}{"limit", 1})
			case 2:
				q = append(q, []interface{}{"limit", 0})
			}
		}
	case 6: // membership in a list that names one number several times, in several representations
		n := toInt(v[1])
		list := make([]interface{}, 0)
		for _, rep := range g.U.Reps(n) {
			list = append(list, []interface{}{"lit", ANum(n, rep)})
		}
		list = append(list, []interface{}{"lit", v}, []interface{}{"lit", ANum(g.smallN[g.r.Intn(nvals)], "f")})
		q = []interface{}{[]interface{}{"where", []interface{}{"un", "in", B(g.pick([]string{"x", "k"})), []interface{}{"list", list}}}}
	case 0: // everything
		q = []interface{}{}
	case 1:
		q = []interface{}{[]interface{}{"where", []interface{}{"un", []string{"gte", "lt", "gt", "lte"}[g.r.Intn(4)], B("x"), []interface{}{"lit", v}}}}
	case 2:
		q = []interface{}{[]interface{}{"where", []interface{}{"un", "eq", B("x"), []interface{}{"lit", v}}}}
	case 3:
		q = []interface{}{[]interface{}{"where", []interface{}{"un", "gte", B("k"), []interface{}{"lit", v}}}}
	case 4:
		q = []interface{}{[]interface{}{"where", []interface{}{"not", []interface{}{"un", "eq", B("x"), []interface{}{"lit", v}}}}}
	case 5:
		q = []interface{}{[]interface{}{"where", []interface{}{"and",
			[]interface{}{"un", "gte", B("x"), []interface{}{"lit", v}},
			[]interface{}{"un", "lte", B("k"), []interface{}{"lit", ANum(g.smallN[g.r.Intn(nvals)], "i")}}}}}
	}
	if size <= 300 && g.chance(0.5) {
		dir := []int{1, -1}[g.r.Intn(2)]
		q = append(q, []interface{}{"sort", []interface{}{[]interface{}{B("x"), dir}, []interface{}{B("_id"), 1}}})
		if g.chance(0.6) {
			q = append(q, []interface{}{"skip", g.r.Intn(size/2 + 1)})
			q = append(q, []interface{}{"limit", g.r.Intn(size/2 + 2)})
		}
	} else if g.chance(0.25) { // unsorted window: any selection of the right size is acceptable
		q = append(q, []interface{}{"limit", g.r.Intn(size + 2)})
	}
	if sameChoice {
		lo := ANum(g.smallN[g.r.Intn(2)], "i")
		kind := g.pick([]string{"gte", "eq"})
		if kind == "eq" {
			lo = v
		}
		q = []interface{}{[]interface{}{"where", []interface{}{"and",
			[]interface{}{"un", kind, B("x"), []interface{}{"lit", lo}},
			[]interface{}{"un", kind, B("k"), []interface{}{"lit", lo}}}},
			[]interface{}{"skip", g.r.Intn(3)}, []interface{}{"limit", 1 + g.r.Intn(size/3+1)}}
		if g.chance(0.3) { // ... or a sort with ties
			q = append(q, []interface{}{"sort", []interface{}{[]interface{}{B("p"), 1}}})
		}
	}
	rewriteX := false
	if size >= 1000 {
		// many pages: prefer operations that rewrite the very field the query filters on
		q = []interface{}{[]interface{}{"where", []interface{}{"un", []string{"gte", "lte", "eq", "gt"}[g.r.Intn(4)], B("x"), []interface{}{"lit", v}}}}
		if g.chance(0.3) {
			q = []interface{}{[]interface{}{"where", []interface{}{"not", []interface{}{"un", "eq", B("x"), []interface{}{"lit", v}}}}}
		}
		rewriteX = true
		if uniform {
			q = []interface{}{[]interface{}{"where", []interface{}{"un", []string{"eq", "gte", "lte"}[g.r.Intn(3)], B("x"), []interface{}{"lit", ANum(g.smallN[1], "i")}}}}
		}
	}
	nv := ANum(g.smallN[g.r.Intn(nvals)], "i")
	big := ANum(g.smallN[nvals-1], "i")
	small := ANum(g.smallN[0], "i")
	// audit before the bulk operation fixes the pre-state for TLC
	evs = append(evs, E{"op": "ListCollections", "audit": true})
	if len(idxSet) > 0 && g.chance(0.3) {
		// dropping (and re-creating) an index over a multi-page collection leaves nothing behind
		f := idxSet[g.r.Intn(len(idxSet))]
		evs = append(evs, E{"op": "DropIndex", "c": c, "f": B(f)})
		if g.chance(0.5) {
			evs = append(evs, E{"op": "CreateIndex", "c": c, "f": B(f)})
		}
	}
	opk := g.r.Intn(9)
	if sameChoice {
		opk = []int{0, 2, 7, 4}[g.r.Intn(4)]
	} else if byId && g.chance(0.6) {
		opk = 0
	} else if size >= 2 && size <= 64 && g.chance(0.25) {
		// an update map without the stamp: the documents that already hold the value are selected (they
		// count against skip and limit) although nothing shows on them
		opk = 9
		dir := []int{1, -1}[g.r.Intn(2)]
		q = []interface{}{[]interface{}{"sort", []interface{}{[]interface{}{B("k"), dir}, []interface{}{B("_id"), 1}}},
			[]interface{}{"skip", g.r.Intn(size/2 + 1)}, []interface{}{"limit", 1 + g.r.Intn(size/2+1)}}
		if g.chance(0.5) {
			q = append([]interface{}{[]interface{}{"where", []interface{}{"un", "gte", B("k"), []interface{}{"lit", small}}}}, q...)
		}
	}
	if rewriteX {
		opk = []int{2, 3, 7, 2, 3, 7, 0, 8}[g.r.Intn(8)]
	}
	// what FindAll returns for the query right before the bulk operation (C03: exactly those documents)
	if size <= 350 && opk != 1 {
		evs = append(evs, E{"op": "FindAll", "c": c, "q": q})
	}
	switch opk {
	case 0:
		evs = append(evs, E{"op": "Delete", "c": c, "q": q})
	case 1:
		evs = append(evs, E{"op": "DropCollection", "c": c})
	case 2:
		evs = append(evs, E{"op": "UpdateFunc", "c": c, "q": q, "upd": []interface{}{"set", B("x"), big}}) // move up
	case 3:
		evs = append(evs, E{"op": "UpdateFunc", "c": c, "q": q, "upd": []interface{}{"setInPlace", B("x"), small}}) // move down
	case 4:
		evs = append(evs, E{"op": "UpdateFunc", "c": c, "q": q, "upd": []interface{}{"nil"}})
	case 5:
		evs = append(evs, E{"op": "UpdateFunc", "c": c, "q": q, "upd": []interface{}{"id"}})
	case 6:
		evs = append(evs, E{"op": "UpdateFunc", "c": c, "q": q, "upd": []interface{}{"appendInPlace", B("arr"), nv}})
	case 7:
		g.stamp++
		evs = append(evs, E{"op": "Update", "c": c, "q": q, "upd": []interface{}{"setall", []interface{}{
			[]interface{}{B("u"), AStr(fmt.Sprintf("op%d", g.stamp))}, []interface{}{B("x"), nv}}}})
	case 8:
		evs = append(evs, E{"op": "UpdateFunc", "c": c, "q": q, "upd": []interface{}{"unset", B("x")}})
	case 9:
		evs = append(evs, E{"op": "Update", "c": c, "q": q, "upd": []interface{}{"setall", []interface{}{[]interface{}{B("x"), ANum(g.smallN[(7+g.r.Intn(2))%nvals], "i")}}}})
	}
	evs = append(evs, E{"op": "Count", "c": c, "q": []interface{}{}})
	return evs
}

// ---------------------------------------------------------------- export / import (C19)

// jsonSafe reports whether a value survives JSON typing in the way the specification describes
// (no -0.0, valid UTF-8).
func jsonSafe(v V) bool {
	switch v[0].(string) {
	case "num":
		return v[2].(string) != "f-"
	case "str":
		b := toBytes(v[1])
		for _, c := range b {
			if c >= 0x80 || c == 0 {
				return false
			}
		}
		return true
	case "arr":
		for _, e := range toList(v[1]) {
			if !jsonSafe(toV(e)) {
				return false
			}
		}
	case "obj":
		for _, p := range toList(v[1]) {
			if !jsonSafe(toV(toList(p)[1])) {
				return false
			}
		}
	}
	return true
}

func (g *Gen) jsonDoc(id V) V {
	for {
		d := g.doc(id)
		if jsonSafe(d) {
			return d
		}
	}
}

func (g *Gen) HistoryIO() []E {
	var evs []E
	src, other := g.colls[0], g.colls[1]
	for _, c := range []string{src, other} {
		g.created[c] = true
		g.live[c] = map[string]bool{}
		g.idx[c] = map[string]bool{}
		evs = append(evs, E{"op": "CreateCollection", "c": c})
	}
	if g.chance(0.5) {
		evs = append(evs, E{"op": "CreateIndex", "c": src, "f": B(g.pick([]string{"x", "s", "n.a"}))})
	}
	n := g.r.Intn(6)
	docs := make([]interface{}, 0)
	for i := 0; i < n && i < len(g.ids); i++ {
		d := g.jsonDoc(AStr(g.ids[i]))
		if g.chance(0.3) { // documents that expire are documents too: the dump has to bring them back
			// (in a zone whose offset is a whole number of minutes: RFC 3339 text cannot say more, so the text of
			// any other time already denotes another instant)
			d = ObjSet(d, "_expiresAt", ATime(g.r.Intn(len(g.U.times)), g.r.Intn(4)))
		}
		docs = append(docs, d)
	}
	evs = append(evs, E{"op": "Insert", "c": src, "docs": docs})
	evs = append(evs, E{"op": "Insert", "c": other, "docs": []interface{}{g.jsonDoc(AStr(g.ids[0]))}})
	evs = append(evs, E{"op": "Export", "c": src, "path": "exp.json", "audit": true})
	names := []string{g.colls[2], g.colls[3]}
	steps := append(g.r.Perm(11), 11)
	for _, s := range steps {
		switch s {
		case 11: // last: the source is dropped and comes back from its own export, under its own name
			if g.chance(0.6) {
				evs = append(evs, E{"op": "DropCollection", "c": src}, E{"op": "Import", "c": src, "path": "exp.json"},
					E{"op": "FindAll", "c": src, "q": []interface{}{[]interface{}{"sort", []interface{}{}}}}, E{"op": "Count", "c": src, "q": []interface{}{}})
			}
		case 8: // a new collection from a query (criteria, sometimes a sorted window)
			g.setFocus(src)
			evs = append(evs, E{"op": "CreateByQuery", "name": "byq", "c": src, "q": g.query(true), "audit": true})
			evs = append(evs, E{"op": "FindAll", "c": "byq", "q": []interface{}{}})
		case 9: // ... under a name that exists, from a source that does or does not
			evs = append(evs, E{"op": "CreateByQuery", "name": other, "c": g.pick([]string{src, "never-created"}), "q": []interface{}{}, "audit": true})
		case 10: // ... from a missing source
			evs = append(evs, E{"op": "CreateByQuery", "name": "byq2", "c": "never-created", "q": []interface{}{}, "audit": true})
			// ... from itself: a query on a collection that does not exist, and one on a collection that does
			evs = append(evs, E{"op": "CreateByQuery", "name": "selfq", "c": "selfq", "q": []interface{}{}, "audit": true},
				E{"op": "ListCollections"}, E{"op": "CreateByQuery", "name": src, "c": src, "q": []interface{}{}, "audit": true})
		case 0:
			evs = append(evs, E{"op": "Import", "c": names[0], "path": "exp.json"})
			evs = append(evs, E{"op": "FindAll", "c": names[0], "q": []interface{}{}})
		case 1: // existing name
			evs = append(evs, E{"op": "Import", "c": other, "path": "exp.json"})
		case 2: // missing file
			evs = append(evs, E{"op": "Import", "c": names[1], "path": "nope.json"})
		case 3: // ill-formed file
			evs = append(evs, E{"op": "PutFile", "path": "bad.json", "content": []interface{}{"bad", g.r.Intn(len(badFiles))}})
			evs = append(evs, E{"op": "Import", "c": names[1], "path": "bad.json"})
		case 4: // a file with an invalid _id
			d1 := ObjSet(g.jsonTypedDoc(AStr(g.ids[1])), "x", ANum(g.smallN[0], "f"))
			d2 := ObjSet(g.jsonTypedDoc(AStr("not-a-uuid")), "x", ANum(g.smallN[1], "f"))
			evs = append(evs, E{"op": "PutFile", "path": "inv.json", "content": []interface{}{"docs", []interface{}{d1, d2}}})
			evs = append(evs, E{"op": "Import", "c": names[1], "path": "inv.json"})
		case 5: // a long dump with a late offender
			big := 1030 + g.r.Intn(600)
			evs = append(evs, E{"op": "PutFile", "path": "big.json", "content": []interface{}{"gen", big, big - 1 - g.r.Intn(5), g.pick([]string{"dup", "bad"})}},
				E{"op": "Import", "c": "from-big", "path": "big.json", "audit": true}, E{"op": "ListCollections"})
			fallthrough
		case 12: // export of a missing collection
			evs = append(evs, E{"op": "Export", "c": "never-created", "path": "x.json"})
			// ... and an export that cannot write its file, followed by one that can: what the failed one leaves
			// behind (in the process, not in the database) must not reach the next file
			evs = append(evs, E{"op": "Export", "c": src, "path": "nodir/exp.json"},
				E{"op": "Export", "c": other, "path": "exp2.json", "audit": true},
				E{"op": "Import", "c": "after-failed-export", "path": "exp2.json"},
				E{"op": "FindAll", "c": "after-failed-export", "q": []interface{}{}})
		case 6: // a well-formed hand-written file
			d1 := g.jsonTypedDoc(AStr(g.ids[2]))
			d2 := g.jsonTypedDoc(AStr(g.ids[3]))
			evs = append(evs, E{"op": "PutFile", "path": "ok.json", "content": []interface{}{"docs", []interface{}{d1, d2}}})
			evs = append(evs, E{"op": "Import", "c": "hand", "path": "ok.json"})
		case 7: // duplicate ids inside the file
			d1 := g.jsonTypedDoc(AStr(g.ids[2]))
			evs = append(evs, E{"op": "PutFile", "path": "dup.json", "content": []interface{}{"docs", []interface{}{d1, d1}}})
			evs = append(evs, E{"op": "Import", "c": "dups", "path": "dup.json"})
		}
	}
	// what the catalog says about every name that was the target of a compound creation
	for _, n := range []string{names[0], names[1], "hand", "dups", "byq", "byq2", other} {
		evs = append(evs, E{"op": "HasCollection", "c": n})
	}
	evs = append(evs, E{"op": "ListCollections", "audit": true})
	return evs
}

// a document whose values are already JSON-typed (floats, no times): what a hand-written file holds
func (g *Gen) jsonTypedDoc(id V) V {
	kv := []interface{}{"_id", id}
	if g.chance(0.7) {
		ord := g.smallN[g.r.Intn(len(g.smallN))]
		kv = append(kv, "x", ANum(ord, "f"))
	}
	if g.chance(0.5) {
		kv = append(kv, "s", AStr(g.pick([]string{"a", "ab", "hello"})))
	}
	if g.chance(0.3) {
		kv = append(kv, "b", ABool(true))
	}
	if g.chance(0.3) {
		kv = append(kv, "z", ANil())
	}
	return AObj(kv...)
}

// ---------------------------------------------------------------- close / reopen (C05, C20)

func (g *Gen) HistoryReopen() []E {
	base := g.History()
	var evs []E
	for i, e := range base {
		evs = append(evs, e)
		if i > 3 && g.chance(0.15) {
			evs = append(evs, E{"op": "Reopen", "audit": true})
		}
	}
	if g.P.CloseOps {
		evs = append(evs, E{"op": "Close"})
		// every kind of operation on the closed handle
		kinds := []string{"CreateCollection", "DropCollection", "HasCollection", "ListCollections", "Insert", "InsertOne", "Save",
			"ReplaceById", "UpdateById", "Update", "UpdateFunc", "Delete", "DeleteById", "CreateIndex", "DropIndex", "HasIndex",
			"ListIndexes", "FindById", "FindAll", "ForEach", "IterateDocs", "FindFirst", "Count", "Exists", "Derived"}
		g.r.Shuffle(len(kinds), func(i, j int) { kinds[i], kinds[j] = kinds[j], kinds[i] })
		for _, k := range kinds {
			e := g.event(k)
			e["audit"] = false
			evs = append(evs, e)
		}
		evs = append(evs, E{"op": "Export", "c": g.colls[0], "path": "closed.json", "audit": false},
			E{"op": "Import", "c": "imp-closed", "path": "closed.json", "audit": false},
			E{"op": "CreateByQuery", "name": "byq-closed", "c": g.colls[0], "q": []interface{}{}, "audit": false})
		evs = append(evs, E{"op": "Close"})
		evs = append(evs, E{"op": "Reopen", "audit": true})
		for i := 0; i < 4; i++ {
			evs = append(evs, g.event(g.weightedOp()))
		}
	}
	return evs
}

// ---------------------------------------------------------------- criteria algebra (C16)

// HistoryAlgebra loads one collection and asks for the result sets of algebraically equivalent
// criteria (De Morgan forms, double negation, Neq / Not Eq, In / disjunction of Eq), with literals
// in every Go numeric kind and every reference operand form.
func (g *Gen) HistoryAlgebra() []E {
	c := g.colls[0]
	g.created[c] = true
	g.live[c] = map[string]bool{}
	g.idx[c] = map[string]bool{}
	evs := []E{{"op": "CreateCollection", "c": c}}
	if g.chance(0.5) {
		f := g.pick([]string{"x", "xy", "n.a"})
		g.idx[c][f] = true
		evs = append(evs, E{"op": "CreateIndex", "c": c, "f": B(f)})
	}
	docs := make([]interface{}, 0)
	for _, id := range g.ids {
		docs = append(docs, g.doc(AStr(id)))
	}
	evs = append(evs, E{"op": "Insert", "c": c, "docs": docs})
	g.setFocus(c)
	find := func(crit []interface{}) {
		evs = append(evs, E{"op": "FindAll", "c": c, "q": []interface{}{[]interface{}{"where", crit}}})
	}
	not := func(x []interface{}) []interface{} { return []interface{}{"not", x} }
	for len(evs) < g.P.Ops {
		a, b := g.crit(2), g.crit(2)
		switch g.r.Intn(7) {
		case 6: // presence: Exists also when nil, NotExists its negation, alone, negated twice and next to a bound
			f := g.leafField()
			none := []interface{}{"none"}
			ex := []interface{}{"un", "exists", B(f), none}
			find(ex)
			find(not(not(ex)))
			find([]interface{}{"sugar", "notexists", B(f), none})
			find([]interface{}{"and", ex, []interface{}{"sugar", "isnil", B(f), none}})
			find([]interface{}{"and", []interface{}{"sugar", "notexists", B(f), none}, []interface{}{"un", "lt", B(f), g.operand(f)}})
			find([]interface{}{"and", []interface{}{"un", "gte", B(f), []interface{}{"lit", ANil()}}, ex})
			find([]interface{}{"sugar", "isnilornotexists", B(f), none})
			// an upper bound next to IsNil, in both orders, and its De Morgan image
			ub := []interface{}{"un", g.pick([]string{"lt", "lte"}), B(f), []interface{}{"lit", g.fieldValue(f)}}
			isnil := []interface{}{"sugar", "isnil", B(f), none}
			find([]interface{}{"and", ub, isnil})
			find([]interface{}{"and", isnil, ub})
			find(not([]interface{}{"or", not(ub), []interface{}{"sugar", "neq", B(f), []interface{}{"lit", ANil()}}}))
		case 0:
			find(not([]interface{}{"and", a, b}))
			find([]interface{}{"or", not(a), not(b)})
		case 1:
			find(not([]interface{}{"or", a, b}))
			find([]interface{}{"and", not(a), not(b)})
		case 2:
			find(a)
			find(not(not(a)))
			find(not(a))
		case 3: // the same literal in every Go numeric kind
			f := g.leafField()
			ord := g.smallN[g.r.Intn(len(g.smallN))]
			op := []string{"eq", "gt", "lte", "in", "contains"}[g.r.Intn(5)]
			for _, kind := range numKinds {
				v := ANum(ord, "i")
				if _, ok := g.U.GammaKind(v, kind); !ok {
					continue
				}
				lit := []interface{}{"lit", canonicalFor(g.U, v, kind), kind}
				if op == "in" || op == "contains" {
					ff := f
					if op == "contains" {
						ff = "arr"
					}
					find([]interface{}{"un", op, B(ff), []interface{}{"list", []interface{}{lit}}})
				} else {
					find([]interface{}{"un", op, B(f), lit})
				}
			}
		case 4: // In as a disjunction of equalities
			f := g.leafField()
			o1, o2 := g.operand(f), g.operand(f)
			find([]interface{}{"un", "in", B(f), []interface{}{"list", []interface{}{o1, o2}}})
			find([]interface{}{"or", []interface{}{"un", "eq", B(f), o1}, []interface{}{"un", "eq", B(f), o2}})
			// Neq and Not(Eq), NotExists and Not(Exists)
			find([]interface{}{"sugar", "neq", B(f), o1})
			find(not([]interface{}{"un", "eq", B(f), o1}))
			find([]interface{}{"sugar", "notexists", B(f), []interface{}{"none"}})
			find(not([]interface{}{"un", "exists", B(f), []interface{}{"none"}}))
		case 5: // reference operands, also to absent fields
			f := g.leafField()
			other := g.pick([]string{"x", "xy", "k", "missing", "n.a", "s"})
			op := []string{"eq", "gt", "lt", "gte", "lte"}[g.r.Intn(5)]
			find([]interface{}{"un", op, B(f), []interface{}{"ref", B(other)}})
			find([]interface{}{"un", op, B(f), []interface{}{"dollar", B(other)}})
			find([]interface{}{"un", "in", B(f), []interface{}{"list", []interface{}{[]interface{}{"ref", B(other)}, []interface{}{"dollar", B("missing")}}}})
			find([]interface{}{"un", "contains", B("arr"), []interface{}{"list", []interface{}{[]interface{}{"ref", B(other)}}}})
		}
	}
	return evs
}

// ---------------------------------------------------------------- operations larger than a store's transaction limit (C04)

// HistoryHuge: a batch of about 11 MB whose last document is offending, then the same batch
// without the offender.  Whatever the store makes of it (bbolt takes it, badger refuses transactions
// beyond its size limit), a call that returns an error must leave no trace.
func (g *Gen) HistoryHuge() []E {
	c := g.colls[0]
	evs := []E{{"op": "CreateCollection", "c": c}}
	if g.chance(0.5) {
		evs = append(evs, E{"op": "CreateIndex", "c": c, "f": B("x")})
	}
	evs = append(evs, E{"op": "Insert", "c": c, "docs": []interface{}{AObj("_id", AStr(bulkId(100000)), "x", g.smallNum())}})
	mk := func(n int, offender string) []interface{} {
		docs := make([]interface{}, 0)
		for i := 0; i < n; i++ {
			docs = append(docs, AObj("_id", AStr(bulkId(i)), "x", ANum(g.smallN[i%len(g.smallN)], "i"), "p", APad(65536)))
		}
		switch offender {
		case "dup":
			docs = append(docs, AObj("_id", AStr(bulkId(0)), "x", g.smallNum()))
		case "bad":
			docs = append(docs, AObj("_id", AStr("not-a-uuid"), "x", g.smallNum()))
		}
		return docs
	}
	n := 165 + g.r.Intn(20)
	evs = append(evs, E{"op": "Insert", "c": c, "docs": mk(n, []string{"dup", "bad"}[g.r.Intn(2)])})
	evs = append(evs, E{"op": "Count", "c": c, "q": []interface{}{}, "audit": true})
	evs = append(evs, E{"op": "Insert", "c": c, "docs": mk(n, "")})
	// a dump longer than any batch an import might be cut into, whose offending document comes late
	big := 1100 + g.r.Intn(1500)
	evs = append(evs, E{"op": "PutFile", "path": "big.json", "content": []interface{}{"gen", big, big - 1 - g.r.Intn(60), g.pick([]string{"dup", "bad"})}})
	evs = append(evs, E{"op": "Import", "c": "from-big", "path": "big.json", "audit": true})
	evs = append(evs, E{"op": "ListCollections"})
	// a bulk update whose last result is invalid
	evs = append(evs, E{"op": "UpdateFunc", "c": c, "q": []interface{}{[]interface{}{"sort", []interface{}{}}}, "upd": []interface{}{"set", B("_expiresAt"), AStr("soon")}})
	evs = append(evs, E{"op": "Count", "c": c, "q": []interface{}{}, "audit": true})
	return evs
}

// ---------------------------------------------------------------- same value, other type (C11)

// retype returns v with every number in another Go representation of the same numeric value and
// every time in another zone of the same instant (where the tables have one): a value that the
// query order cannot tell from v but that the stored document must tell apart.
func (g *Gen) retype(v V) V {
	switch v[0] {
	case "num":
		reps := g.U.Reps(toInt(v[1]))
		var other []string
		for _, r := range reps {
			if r != v[2].(string) {
				other = append(other, r)
			}
		}
		if len(other) == 0 {
			return v
		}
		return ANum(toInt(v[1]), other[g.r.Intn(len(other))])
	case "time":
		z := (toInt(v[2]) + 1 + g.r.Intn(genZones-1)) % genZones
		return ATime(toInt(v[1]), z)
	case "arr":
		var el []V
		for _, e := range toList(v[1]) {
			el = append(el, g.retype(toV(e)))
		}
		return AArr(el...)
	case "obj":
		out := V{"obj", []interface{}{}}
		for _, kv := range toList(v[1]) {
			p := toList(kv)
			k := string(toBytes(p[0]))
			val := toV(p[1])
			if k != "_id" {
				val = g.retype(val)
			}
			out = ObjSet(out, k, val)
		}
		return out
	}
	return v
}

// HistoryRetype stores documents and then rewrites each of them, by every operation that can, with
// the same values in other Go types and zones; what is read back afterwards must be the rewritten
// document exactly.
func (g *Gen) HistoryRetype() []E {
	c := g.colls[0]
	evs := []E{{"op": "CreateCollection", "c": c}}
	g.created[c] = true
	g.live[c] = map[string]bool{}
	g.idx[c] = map[string]bool{}
	if g.chance(0.5) {
		evs = append(evs, E{"op": "CreateIndex", "c": c, "f": B(g.pick([]string{"x", "t", "n.a"}))})
	}
	n := 3 + g.r.Intn(4)
	docs := map[string]V{}
	var ids []string
	var batch []interface{}
	for i := 0; i < n && i < len(g.ids); i++ {
		id := g.ids[i]
		d := g.doc(AStr(id))
		d = ObjSet(d, "x", g.smallNum())
		d = ObjSet(d, "t", g.tim())
		docs[id] = d
		ids = append(ids, id)
		batch = append(batch, d)
	}
	evs = append(evs, E{"op": "Insert", "c": c, "docs": batch})
	g.noteInsert(c, ids...)
	for round := 0; round < 2; round++ {
		for _, id := range ids {
			nd := g.retype(docs[id])
			switch g.r.Intn(5) {
			case 0:
				evs = append(evs, E{"op": "ReplaceById", "c": c, "id": B(id), "docs": []interface{}{nd}})
			case 1:
				evs = append(evs, E{"op": "Save", "c": c, "docs": []interface{}{nd}})
			case 2, 3:
				f := g.pick([]string{"x", "t"})
				fv, _ := ObjGet(nd, f)
				old := docs[id]
				nd = ObjSet(old, f, fv)
				kind := "set"
				if g.chance(0.5) {
					kind = "setInPlace"
				}
				evs = append(evs, E{"op": "UpdateById", "c": c, "id": B(id), "upd": []interface{}{kind, B(f), fv}})
			default:
				f := g.pick([]string{"x", "t"})
				fv, _ := ObjGet(nd, f)
				old := docs[id]
				nd = ObjSet(old, f, fv)
				q := []interface{}{[]interface{}{"where", []interface{}{"un", "eq", B("_id"), []interface{}{"lit", AStr(id)}}}}
				evs = append(evs, E{"op": "UpdateFunc", "c": c, "q": q, "upd": []interface{}{"set", B(f), fv}})
			}
			docs[id] = nd
			evs = append(evs, E{"op": "FindById", "c": c, "id": B(id)})
		}
		evs = append(evs, E{"op": "FindAll", "c": c, "q": []interface{}{}})
		if g.P.Name == "retypereopen" {
			evs = append(evs, E{"op": "Reopen", "audit": true})
		}
	}
	return evs
}

// ---------------------------------------------------------------- _expiresAt is only data (C15)

// HistoryExpiry: documents whose _expiresAt lies in the past, a moment ahead of the wall clock, far
// in the future, or is absent, in an indexed collection; the wall clock then passes the near one and
// the collection is read and rewritten through the index.  clover keeps such documents (expiry is
// not implemented), so every backend must keep them, and their index entries, too.
func (g *Gen) HistoryExpiry() []E {
	c := g.colls[0]
	soon := g.U.soonOrd
	evs := []E{{"op": "CreateCollection", "c": c}}
	if g.chance(0.7) {
		evs = append(evs, E{"op": "CreateIndex", "c": c, "f": B("x")})
	}
	var docs []interface{}
	for i, ord := range []int{soon, 0, soon + 1, -1, soon} {
		d := AObj("_id", AStr(g.ids[i]), "x", ANum(g.smallN[1+i%3], "i"))
		if ord >= 0 {
			d = ObjSet(d, "_expiresAt", ATime(ord, g.r.Intn(genZones)))
		}
		docs = append(docs, d)
	}
	evs = append(evs, E{"op": "Insert", "c": c, "docs": docs[:4]})
	evs = append(evs, E{"op": "CreateIndex", "c": c, "f": B("_expiresAt")})
	evs = append(evs, E{"op": "InsertOne", "c": c, "docs": docs[4:]})
	if g.chance(0.5) {
		evs = append(evs, E{"op": "UpdateById", "c": c, "id": B(g.ids[0]), "upd": []interface{}{"set", B("x"), ANum(g.smallN[2], "i")}})
	}
	where := func(op string, v V) []interface{} {
		return []interface{}{"where", []interface{}{"un", op, B("x"), []interface{}{"lit", v}}}
	}
	sortX := []interface{}{"sort", []interface{}{[]interface{}{B("x"), -1}, []interface{}{B("_id"), 1}}}
	evs = append(evs, E{"op": "FindAll", "c": c, "q": []interface{}{where("gte", ANum(g.smallN[0], "i"))}, "pause": 2200, "audit": true})
	evs = append(evs, E{"op": "Count", "c": c, "q": []interface{}{where("eq", ANum(g.smallN[1], "i"))}})
	evs = append(evs, E{"op": "FindAll", "c": c, "q": []interface{}{sortX}})
	evs = append(evs, E{"op": "FindAll", "c": c, "q": []interface{}{[]interface{}{"sort", []interface{}{[]interface{}{B("_expiresAt"), 1}, []interface{}{B("_id"), 1}}}}})
	evs = append(evs, E{"op": "Derived", "c": c, "q": []interface{}{where("gt", ANum(g.smallN[0], "i")), sortX}, "js": []interface{}{0, 1}, "ids": []interface{}{B(g.ids[0]), B(g.ids[4])}})
	// the derived reads on the whole collection: with no criteria Count may take another path than FindAll
	evs = append(evs, E{"op": "Derived", "c": c, "q": []interface{}{}, "js": []interface{}{0, 2}, "ids": []interface{}{B(g.ids[1]), B(g.ids[2])}})
	evs = append(evs, E{"op": "Derived", "c": c, "q": []interface{}{sortX, []interface{}{"skip", 1}}, "js": []interface{}{1}, "ids": []interface{}{B(g.ids[1])}})
	evs = append(evs, E{"op": "Delete", "c": c, "q": []interface{}{where("gt", ANum(g.smallN[1], "i"))}, "audit": true})
	evs = append(evs, E{"op": "Count", "c": c, "q": []interface{}{}, "audit": true})
	return evs
}

// ---------------------------------------------------------------- long strings that share long prefixes

// HistoryLongStr: an indexed field whose values are strings of 100 to 70 000 bytes that are prefixes of one another
// (paddings: n times the same byte), next to short strings, numbers and nil.  Whatever an index key keeps of a long
// string, range scans with exclusive bounds, index-served sorts and windows must agree with the comparison of the
// whole strings; the lengths sit around 128, 1 024 and 32 768 bytes, where a key encoding might cut.
func (g *Gen) HistoryLongStr() []E {
	c := g.colls[0]
	lens := []int{100, 127, 128, 129, 130, 1023, 1024, 1025, 1026, 1500, 4096, 32767, 32768, 32769, 70000}
	g.r.Shuffle(len(lens), func(i, j int) { lens[i], lens[j] = lens[j], lens[i] })
	mid := lens[:8]
	if g.chance(0.7) { // most histories stay below the key limits of the stores: every write succeeds
		k := 0
		for _, n := range lens {
			if n <= 4096 && k < 8 {
				mid[k] = n
				k++
			}
		}
		mid = mid[:k]
	}
	vals := []V{AStr("p"), AStr("pp"), AStr("q"), ANil(), ANum(g.smallN[1], "i")}
	for _, n := range mid {
		vals = append(vals, APad(n))
	}
	evs := []E{{"op": "CreateCollection", "c": c}}
	early := g.chance(0.5)
	if early {
		evs = append(evs, E{"op": "CreateIndex", "c": c, "f": B("s")})
	}
	// ids in an order unrelated to the values
	perm := g.r.Perm(len(g.ids))
	var docs []interface{}
	for i, v := range vals {
		if i >= len(perm) {
			break
		}
		docs = append(docs, AObj("_id", AStr(g.ids[perm[i]]), "s", v, "x", ANum(g.smallN[i%len(g.smallN)], "i")))
	}
	// a second document for some of the long values: runs of equal keys
	for i := 0; i < 3 && len(vals)+i < len(perm); i++ {
		docs = append(docs, AObj("_id", AStr(g.ids[perm[len(vals)+i]]), "s", vals[5+g.r.Intn(len(vals)-5)], "x", g.smallNum()))
	}
	for i := 0; i < len(docs); i += 4 {
		j := i + 4
		if j > len(docs) {
			j = len(docs)
		}
		evs = append(evs, E{"op": "Insert", "c": c, "docs": docs[i:j]})
	}
	if !early {
		evs = append(evs, E{"op": "CreateIndex", "c": c, "f": B("s"), "audit": true})
	}
	un := func(op string, v V) []interface{} {
		return []interface{}{"where", []interface{}{"un", op, B("s"), []interface{}{"lit", v}}}
	}
	sortS := func(dir int) []interface{} {
		return []interface{}{"sort", []interface{}{[]interface{}{B("s"), dir}}}
	}
	for _, v := range vals[5:] {
		op := g.pick([]string{"gt", "lt", "gte", "lte", "eq"})
		q := []interface{}{un(op, v)}
		switch g.r.Intn(4) {
		case 0:
			q = append(q, sortS(1))
		case 1:
			q = append(q, sortS(-1))
		}
		evs = append(evs, E{"op": g.pick([]string{"FindAll", "FindAll", "Count"}), "c": c, "q": q})
	}
	// two-sided ranges between neighbouring lengths
	for k := 0; k < 3; k++ {
		a, b := vals[5+g.r.Intn(len(vals)-5)], vals[5+g.r.Intn(len(vals)-5)]
		lo, hi := g.pick([]string{"gt", "gte"}), g.pick([]string{"lt", "lte"})
		crit := []interface{}{"and", []interface{}{"un", lo, B("s"), []interface{}{"lit", a}}, []interface{}{"un", hi, B("s"), []interface{}{"lit", b}}}
		evs = append(evs, E{"op": "FindAll", "c": c, "q": []interface{}{[]interface{}{"where", crit}}})
	}
	for _, dir := range []int{1, -1} {
		evs = append(evs, E{"op": "FindAll", "c": c, "q": []interface{}{sortS(dir)}})
		evs = append(evs, E{"op": "FindAll", "c": c, "q": []interface{}{sortS(dir), []interface{}{"skip", 1 + g.r.Intn(6)}, []interface{}{"limit", 1 + g.r.Intn(4)}}})
	}
	evs = append(evs, E{"op": "Derived", "c": c, "q": []interface{}{un("gt", vals[5]), sortS(1), []interface{}{"skip", 1}}, "js": []interface{}{0, 1}, "ids": []interface{}{B(g.ids[perm[0]])}})
	evs = append(evs, E{"op": "Update", "c": c, "q": []interface{}{un("gt", vals[6]), sortS(-1), []interface{}{"limit", 2}}, "upd": g.updateMap(), "audit": true})
	evs = append(evs, E{"op": "Delete", "c": c, "q": []interface{}{un("lt", vals[7%len(vals)])}, "audit": true})
	evs = append(evs, E{"op": "FindAll", "c": c, "q": []interface{}{sortS(1)}}, E{"op": "Count", "c": c, "q": []interface{}{}, "audit": true})
	return evs
}

// ---------------------------------------------------------------- long runs of equal index keys

// HistoryRuns: an indexed field with few distinct values, two of which are held by 33 to 70 documents each (more
// than an implementation is likely to step over one by one), one by a handful, some documents without the field.
// Exclusive and inclusive bounds on exactly those values, both scan directions, windows that start and end inside a
// run, and a bulk delete through the index.
func (g *Gen) HistoryRuns() []E {
	c := g.colls[0]
	vals := []V{ANum(g.smallN[1], "i"), ANum(g.smallN[2], "i"), ANum(g.smallN[3], "i"), AStr("a")}
	counts := []int{33 + g.r.Intn(38), 2 + g.r.Intn(3), 33 + g.r.Intn(10), 3}
	evs := []E{{"op": "CreateCollection", "c": c}}
	early := g.chance(0.5)
	if early {
		evs = append(evs, E{"op": "CreateIndex", "c": c, "f": B("x")})
	}
	var docs []interface{}
	k := 0
	for vi, v := range vals {
		for j := 0; j < counts[vi]; j++ {
			docs = append(docs, AObj("_id", AStr(bulkId(k)), "x", v, "k", ANum(g.smallN[k%len(g.smallN)], "i")))
			k++
		}
	}
	for j := 0; j < 3; j++ {
		docs = append(docs, AObj("_id", AStr(bulkId(k)), "k", g.smallNum()))
		k++
	}
	g.r.Shuffle(len(docs), func(i, j int) { docs[i], docs[j] = docs[j], docs[i] })
	for i := 0; i < len(docs); i += 50 {
		j := i + 50
		if j > len(docs) {
			j = len(docs)
		}
		evs = append(evs, E{"op": "Insert", "c": c, "docs": docs[i:j]})
	}
	if !early {
		evs = append(evs, E{"op": "CreateIndex", "c": c, "f": B("x"), "audit": true})
	}
	un := func(op string, v V) []interface{} {
		return []interface{}{"where", []interface{}{"un", op, B("x"), []interface{}{"lit", v}}}
	}
	sortX := func(dir int) []interface{} {
		return []interface{}{"sort", []interface{}{[]interface{}{B("x"), dir}, []interface{}{B("_id"), 1}}}
	}
	for _, v := range vals[:3] {
		for _, op := range []string{"gt", "lt", "gte", "lte"} {
			q := []interface{}{un(op, v)}
			switch g.r.Intn(3) {
			case 0:
				q = append(q, sortX(1))
			case 1:
				q = append(q, sortX(-1))
			}
			evs = append(evs, E{"op": g.pick([]string{"FindAll", "Count", "FindAll"}), "c": c, "q": q})
		}
	}
	for _, dir := range []int{1, -1} {
		evs = append(evs, E{"op": "FindAll", "c": c, "q": []interface{}{sortX(dir), []interface{}{"skip", 20 + g.r.Intn(30)}, []interface{}{"limit", 1 + g.r.Intn(30)}}})
	}
	evs = append(evs, E{"op": "Derived", "c": c, "q": []interface{}{un("gt", vals[0]), sortX(-1)}, "js": []interface{}{0, 1}, "ids": []interface{}{B(bulkId(0))}})
	evs = append(evs, E{"op": "Delete", "c": c, "q": []interface{}{un("gt", vals[0])}, "audit": true})
	evs = append(evs, E{"op": "Count", "c": c, "q": []interface{}{}, "audit": true})
	return evs
}

// ---------------------------------------------------------------- a database file that grows, shrinks and is reopened

// HistoryShrinkReopen: a few hundred documents of 4 to 8 KB (a data file of several MB), most of them deleted again
// (more than half of the file is free pages), then close and reopen, acknowledged writes of every kind in the new
// session, close and reopen again: whatever a store does to a sparse file when it opens it, what was acknowledged
// before and after is there.
func (g *Gen) HistoryShrinkReopen() []E {
	c := g.colls[0]
	evs := []E{{"op": "CreateCollection", "c": c}, {"op": "CreateIndex", "c": c, "f": B("x")}}
	n := 260 + g.r.Intn(120)
	var batch []interface{}
	for i := 0; i < n; i++ {
		batch = append(batch, AObj("_id", AStr(bulkId(i)), "x", ANum(g.smallN[i%len(g.smallN)], "i"), "p", APad([]int{4096, 6000, 8192}[i%3])))
		if len(batch) == 60 || i == n-1 {
			evs = append(evs, E{"op": "Insert", "c": c, "docs": batch, "audit": false})
			batch = nil
		}
	}
	keep := ANum(g.smallN[0], "i")
	evs = append(evs, E{"op": "Delete", "c": c, "q": []interface{}{[]interface{}{"where", []interface{}{"un", "gt", B("x"), []interface{}{"lit", keep}}}}, "audit": true})
	evs = append(evs, E{"op": "Reopen", "audit": true})
	// the session after the reopen
	evs = append(evs, E{"op": "Insert", "c": c, "docs": []interface{}{AObj("_id", AStr(bulkId(n+1)), "x", g.smallNum()), AObj("_id", AStr(bulkId(n+2)), "x", g.smallNum())}})
	evs = append(evs, E{"op": "UpdateById", "c": c, "id": B(bulkId(0)), "upd": []interface{}{"set", B("x"), ANum(g.smallN[2], "i")}})
	evs = append(evs, E{"op": "DeleteById", "c": c, "id": B(bulkId(len(g.smallN)))})
	evs = append(evs, E{"op": "CreateIndex", "c": c, "f": B("k")})
	evs = append(evs, E{"op": "CreateCollection", "c": "second"})
	evs = append(evs, E{"op": "Insert", "c": "second", "docs": []interface{}{AObj("_id", AStr(bulkId(1)), "x", g.smallNum())}, "audit": true})
	evs = append(evs, E{"op": "Reopen", "audit": true})
	evs = append(evs, E{"op": "FindAll", "c": c, "q": []interface{}{[]interface{}{"sort", []interface{}{[]interface{}{B("x"), 1}, []interface{}{B("_id"), 1}}}}})
	evs = append(evs, E{"op": "ListCollections"}, E{"op": "ListIndexes", "c": c}, E{"op": "Count", "c": "second", "q": []interface{}{}, "audit": true})
	return evs
}
