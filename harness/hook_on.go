//go:build verif

package main

import (
	"fmt"
	"sync"

	clover "github.com/ostafen/clover/v2"
)

var planMu sync.Mutex
var planKinds = map[string]int{}

func init() {
	clover.VerifPlanHook = func(collection, kind, field string, reverse, sortNode bool) {
		k := fmt.Sprintf("%s/rev=%v/sortnode=%v", kind, reverse, sortNode)
		planMu.Lock()
		planKinds[k]++
		planMu.Unlock()
	}
}

func planKindCounts() map[string]int {
	planMu.Lock()
	defer planMu.Unlock()
	out := map[string]int{}
	for k, v := range planKinds {
		out[k] = v
	}
	return out
}
