package main

// C05 (iii): a child process executes a seeded history of write operations on an on-disk backend,
// acknowledging each operation on its standard output; the parent kills it with SIGKILL between or
// inside operations, reopens the directory and audits it.  TLC (TraceL1, InvCrash) decides: every
// acknowledged operation is present, the operation in flight is entirely present or entirely
// absent, counters / indexes / catalog are intact.

import (
	"bufio"
	"flag"
	"fmt"
	"math/rand"
	"os"
	"os/exec"
	"strconv"
	"strings"
	"sync"
	"syscall"
	"time"
)

func init() {
	extraCommands["crashchild"] = cmdCrashChild
	extraCommands["crash"] = cmdCrash
}

var crashBig bool

// crashBigHistory: one collection of 700 documents; an index is created over it, dropped, created
// again, a bulk update rewrites the indexed field, the collection is dropped.  Every one of these
// operations touches thousands of keys in one transaction: the kill lands deep inside them.
func crashBigHistory(seed int64) ([]E, *Universe) {
	p := &Profile{Name: "crash", NumTable: "general", TimeTable: "general", Colls: 1, MaxDocs: 16, Indexes: true, NoGenIds: true, W: weights(nil)}
	g := NewGen(seed, p)
	c := "big"
	var docs []interface{}
	for i := 0; i < 700; i++ {
		docs = append(docs, AObj("_id", AStr(bulkId(i)), "x", ANum(g.smallN[i%len(g.smallN)], "i")))
	}
	where := []interface{}{[]interface{}{"where", []interface{}{"un", "gte", B("x"), []interface{}{"lit", ANum(g.smallN[1], "i")}}}}
	evs := []E{{"op": "CreateCollection", "c": c}, {"op": "Insert", "c": c, "docs": docs},
		{"op": "CreateIndex", "c": c, "f": B("x")},
		{"op": "DropIndex", "c": c, "f": B("x")},
		{"op": "CreateIndex", "c": c, "f": B("x")},
		// a dump of the 700 documents, imported under another name (an import may be cut into batches: the kill
		// lands between them too), indexed, dropped
		{"op": "Export", "c": c, "path": "big.json"},
		{"op": "Import", "c": "big2", "path": "big.json"},
		{"op": "CreateIndex", "c": "big2", "f": B("x")},
		{"op": "DropCollection", "c": "big2"},
		{"op": "UpdateFunc", "c": c, "q": where, "upd": []interface{}{"set", B("x"), ANum(g.smallN[0], "i")}},
		{"op": "DropIndex", "c": c, "f": B("x")},
		{"op": "CreateIndex", "c": c, "f": B("x")},
		{"op": "Delete", "c": c, "q": where},
		{"op": "DropCollection", "c": c}}
	return evs, g.U
}

func crashHistory(seed int64) ([]E, *Universe) {
	if crashBig {
		return crashBigHistory(seed)
	}
	p := &Profile{Name: "crash", NumTable: "general", TimeTable: "general", Colls: 2, MaxDocs: 16, Indexes: true, Invalid: 0.1,
		NoGenIds: true, W: map[string]int{"Insert": 30, "ReplaceById": 6, "UpdateById": 10, "Update": 8, "UpdateFunc": 8, "Delete": 4,
			"DeleteById": 6, "CreateIndex": 6, "DropIndex": 3, "CreateCollection": 3, "DropCollection": 2}}
	p.Ops = 40
	g := NewGen(seed, p)
	evs := g.History()
	// in-flight operations must be decidable without observing their result: no windows
	for _, e := range evs {
		if q, ok := e["q"]; ok {
			var nq []interface{}
			for _, b := range toList(q) {
				k := toList(b)[0].(string)
				if k == "skip" || k == "limit" {
					continue
				}
				nq = append(nq, b)
			}
			if nq == nil {
				nq = []interface{}{}
			}
			e["q"] = nq
		}
	}
	// composite operations (create + fill) spread over the history
	var out []E
	for i, e := range evs {
		out = append(out, e)
		if i > 8 && i%7 == 0 {
			out = append(out, E{"op": "CreateByQuery", "name": fmt.Sprintf("byq%d", i), "c": g.colls[(i/7)%len(g.colls)], "q": []interface{}{}})
		}
		if i > 8 && i%9 == 0 { // an index created and dropped again over whatever the collection holds by now
			c := g.colls[(i/9)%len(g.colls)]
			out = append(out, E{"op": "CreateIndex", "c": c, "f": B("k")}, E{"op": "DropIndex", "c": c, "f": B("k")})
		}
	}
	return out, g.U
}

func cmdCrashChild(args []string) {
	fs := flag.NewFlagSet("crashchild", flag.ExitOnError)
	dir := fs.String("dir", "", "database directory")
	be := fs.String("backend", "bolt", "bolt|badger")
	seed := fs.Int64("seed", 1, "seed")
	big := fs.Bool("big", false, "the history over one large collection")
	fs.Parse(args)
	crashBig = *big
	evs, u := crashHistory(*seed)
	b := &Backend{Name: *be, dir: *dir}
	if err := b.reopen(); err != nil {
		fmt.Println("FATAL", err)
		os.Exit(3)
	}
	x := &Exec{U: u, FileDir: *dir, Backends: []*Backend{b}}
	for i, e := range evs {
		os.Stdout.WriteString(fmt.Sprintf("START %d\n", i))
		res := x.Run(b, e, nil)
		os.Stdout.WriteString(fmt.Sprintf("ACK %d %v %v\n", i, res["st"], res["err"]))
	}
	os.Stdout.WriteString("DONE\n")
	os.Stdout.WriteString("CLOSING\n")
	b.db.Close()
	os.Stdout.WriteString("CLOSED\n")
}

func cmdCrash(args []string) {
	fs := flag.NewFlagSet("crash", flag.ExitOnError)
	seed := fs.Int64("seed", 1, "seed")
	n := fs.Int("n", 10, "number of kills")
	backends := fs.String("backends", "rotate", "bolt,badger")
	work := fs.String("workdir", "", "directory (on a real disk) for the database directories")
	out := fs.String("out", "crash.ndjson", "output")
	statsOut := fs.String("stats", "", "stats json")
	par := fs.Int("par", 6, "parallel")
	big := fs.Bool("big", false, "kill inside operations over one large collection")
	fs.Parse(args)
	crashBig = *big
	if *work == "" {
		*work = scratchBase()
	}
	type result struct {
		lines [][]byte
		class string
	}
	results := make([]result, *n)
	var wg sync.WaitGroup
	sem := make(chan struct{}, *par)
	for i := 0; i < *n; i++ {
		wg.Add(1)
		sem <- struct{}{}
		go func(i int) {
			defer wg.Done()
			defer func() { <-sem }()
			tseed := *seed*1000003 + int64(i)
			be := []string{"bolt", "badger"}[int(tseed)%2]
			if *backends != "rotate" {
				bs := strings.Split(*backends, ",")
				be = bs[i%len(bs)]
			}
			results[i].lines, results[i].class = runKill(tseed, be, *work)
		}(i)
	}
	wg.Wait()
	f, err := os.Create(*out)
	if err != nil {
		panic(err)
	}
	w := bufio.NewWriterSize(f, 1<<20)
	stats := map[string]int{}
	events := 0
	for _, r := range results {
		for _, l := range r.lines {
			w.Write(l)
			events++
		}
		stats[r.class]++
	}
	w.Flush()
	f.Close()
	if *statsOut != "" {
		os.WriteFile(*statsOut, marshalLine(E{"traces": *n, "events": events, "outcomes": stats}), 0o644)
	}
	fmt.Printf("crash: seed=%d kills=%d events=%d classes=%v -> %s\n", *seed, *n, events, stats, *out)
}

func runKill(seed int64, be, work string) ([][]byte, string) {
	dir, err := os.MkdirTemp(work, "verif-crash-")
	if err != nil {
		panic(err)
	}
	defer os.RemoveAll(dir)
	evs, u := crashHistory(seed)
	r := rand.New(rand.NewSource(seed ^ 0x5eed))
	target := r.Intn(len(evs) + 6) // kill around operation `target` (>= len(evs): inside Close)
	inside := r.Intn(3) != 0      // inside the operation (after its START), else right after the previous ACK
	if r.Intn(3) == 0 {
		// a third of the kills aim inside the operations that touch many keys at once
		var structural []int
		for i, e := range evs {
			switch e["op"] {
			case "DropIndex", "CreateIndex", "DropCollection", "CreateByQuery", "Delete", "UpdateFunc", "Update":
				if i > 3 {
					structural = append(structural, i)
				}
			}
		}
		if len(structural) > 0 {
			target, inside = structural[r.Intn(len(structural))], true
		}
	}
	delay := time.Duration(r.Intn(1500)) * time.Microsecond
	if r.Intn(3) == 0 {
		delay = time.Duration(r.Intn(20000)) * time.Microsecond // deep inside a long operation
	}
	if r.Intn(4) == 0 {
		delay = 0
	}

	childArgs := []string{"crashchild", "-dir", dir, "-backend", be, "-seed", strconv.FormatInt(seed, 10)}
	if crashBig {
		childArgs = append(childArgs, "-big")
		target, inside = 2+r.Intn(len(evs)-2), true
		if r.Intn(2) == 0 { // the drops: a single call removes a whole key range
			target = []int{3, 6, 9}[r.Intn(3)]
		}
		delay = time.Duration(r.Intn(9000)) * time.Microsecond
	}
	cmd := exec.Command(os.Args[0], childArgs...)
	stdout, _ := cmd.StdoutPipe()
	if err := cmd.Start(); err != nil {
		panic(err)
	}
	type ack struct{ st, err string }
	acks := map[int]ack{}
	started := -1
	killed := false
	sc := bufio.NewScanner(stdout)
	for sc.Scan() {
		f := strings.Fields(sc.Text())
		if len(f) == 0 {
			continue
		}
		switch f[0] {
		case "START":
			started, _ = strconv.Atoi(f[1])
			if started == target && inside {
				time.Sleep(delay)
				cmd.Process.Signal(syscall.SIGKILL)
				killed = true
			}
		case "ACK":
			i, _ := strconv.Atoi(f[1])
			e := ""
			if len(f) > 3 {
				e = f[3]
			}
			acks[i] = ack{f[2], e}
			if i+1 == target && !inside && target < len(evs) {
				cmd.Process.Signal(syscall.SIGKILL)
				killed = true
			}
		case "CLOSING": // kill inside Close: the store is flushing and deleting its files
			if target >= len(evs) {
				time.Sleep(delay * 3)
				cmd.Process.Signal(syscall.SIGKILL)
				killed = true
			}
		case "FATAL":
			panic("crash child: " + sc.Text())
		}
		if killed {
			break
		}
	}
	if !killed {
		cmd.Process.Signal(syscall.SIGKILL)
	}
	// drain: lines written before the kill took effect still count as acknowledgements
	for sc.Scan() {
		f := strings.Fields(sc.Text())
		if len(f) >= 3 && f[0] == "ACK" {
			i, _ := strconv.Atoi(f[1])
			e := ""
			if len(f) > 3 {
				e = f[3]
			}
			acks[i] = ack{f[2], e}
		} else if len(f) >= 2 && f[0] == "START" {
			started, _ = strconv.Atoi(f[1])
		}
	}
	cmd.Wait()

	var lines [][]byte
	lines = append(lines, marshalLine(E{"op": "Reset", "profile": "crash", "seed": seed, "numTable": "general", "timeTable": "general",
		"backends": be, "runs": []interface{}{E{"be": "-", "res": E{"st": "ok", "err": ""}}}}))
	class := "between"
	if target >= len(evs) {
		class = "inside-close"
	}
	for i, e := range evs {
		line := E{}
		for k, v := range e {
			line[k] = v
		}
		if a, ok := acks[i]; ok {
			line["runs"] = []interface{}{E{"be": be, "res": E{"st": a.st, "err": a.err}}}
			lines = append(lines, marshalLine(line))
			continue
		}
		if i == started { // started, never acknowledged: in flight at the crash
			line["inflight"] = 1
			line["runs"] = []interface{}{E{"be": be, "res": E{"st": "unknown", "err": ""}}}
			lines = append(lines, marshalLine(line))
			class = "inflight/" + e["op"].(string)
		}
		break
	}
	// reopen in this process and audit
	b := &Backend{Name: be, dir: dir}
	x := &Exec{U: u, FileDir: dir}
	var audit E
	if err := b.reopen(); err != nil {
		audit = E{"failed": "reopen: " + err.Error()}
		if keep := os.Getenv("VERIF_KEEP_CRASH"); keep != "" {
			exec.Command("cp", "-r", dir, keep).Run()
		}
	} else {
		audit = x.Audit(b)
		b.db.Close()
	}
	lines = append(lines, marshalLine(E{"op": "CrashReopen", "runs": []interface{}{E{"be": be, "res": E{"st": "ok", "err": ""}, "audit": audit}}}))
	return lines, class
}
