package main

// Generator profiles, one family per property (DESIGN.md section 7).

func getProfile(name string, seed int64) *Profile {
	p := &Profile{Name: name, NumTable: "general", TimeTable: "general", Colls: 2, Ops: 30, MaxDocs: 10,
		Indexes: true, Invalid: 0.12, ReadAudit: 0.1, W: weights(nil)}
	switch name {
	case "general":
	case "noindex":
		p.Indexes = false
	case "reads": // C01: reads interleaved with writes, indexes created before / between / after
		p.Ops = 40
		p.W = weights(map[string]int{"FindAll": 30, "ForEach": 6, "FindById": 6, "Derived": 4, "DropCollection": 2})
		p.Invalid = 0.05
		// several collections whose names are prefixes of each other, some of them dropped on the way
		p.Colls = 3
		p.PrefixNames = true
	case "sort": // C08
		p.SortHeavy = true
		p.Ops = 40
		p.Colls = 1
		p.W = weights(map[string]int{"FindAll": 30, "ForEach": 8, "Derived": 6, "DropCollection": 0, "Delete": 1})
		p.Invalid = 0.03
	case "ties": // C08 / C09: many documents, few distinct sort keys, windows cutting tie groups
		p.Colls = 1
		p.MaxDocs = 30
		p.Ops = 30
		p.SortHeavy = true
		p.Invalid = 0.02
		p.Name = "ties"
		p.W = weights(map[string]int{"Derived": 30, "FindAll": 10, "FindFirst": 6, "Insert": 20, "DropCollection": 0, "Delete": 1, "DeleteById": 2, "CreateIndex": 2})
	case "derived": // C09
		p.AltIds = true
		p.PrefixNames = true
		p.W = weights(map[string]int{"Derived": 30, "FindAll": 4, "Count": 6, "Exists": 4, "FindFirst": 4, "ForEach": 6, "FindById": 4, "DeleteById": 8})
		p.ReadAudit = 0.5
	case "audit": // C06
		p.AltIds = true
		p.Ops = 45
		p.W = weights(map[string]int{"DeleteById": 8, "DropCollection": 3, "CreateCollection": 4, "CreateIndex": 8, "DropIndex": 5, "FindAll": 4, "Derived": 3})
		p.Invalid = 0.2
	case "rich": // C11
		p.Rich = true
		p.AltIds = true
		p.W = weights(map[string]int{"FindAll": 10, "FindById": 10, "Derived": 4})
		p.Invalid = 0.02
	case "richreopen":
		p.Rich = true
		p.AltIds = true
		p.CloseOps = false
		p.Ops = 24
		p.Name = "richreopen"
		p.W = weights(map[string]int{"FindAll": 8, "FindById": 8, "Derived": 3})
		p.Invalid = 0.02
	case "retype", "retypereopen": // C11: rewrites with the same values in other Go types / zones
		p.Rich = true
		p.AltIds = true
		p.Colls = 1
		p.Invalid = 0
	case "pads": // C15: documents of a few bytes up to 70 KB (stores treat large values differently)
		p.Pads = true
		p.Colls = 1
		p.Invalid = 0.05
	case "shrinkreopen": // C05: a data file of several MB, mostly freed, reopened twice
		p.Colls = 1
		p.Invalid = 0
	case "runs": // C01 C15 C17: runs of more than 32 equal index keys
		p.Colls = 1
		p.Invalid = 0
	case "longstr": // C01 C08 C10: long strings that are prefixes of one another in an indexed field
		p.Colls = 1
		p.Invalid = 0
	case "expiry": // C15: _expiresAt is data, nothing ever expires - on any backend
		p.Colls = 1
		p.TimeTable = "soon"
		p.Invalid = 0
	case "algebra": // C16: algebraically equivalent criteria, literal kinds, reference operands
		p.Ops = 40
		p.Colls = 1
		p.Name = "algebra"
		p.Invalid = 0.02
	case "huge": // C04: operations beyond a store's transaction size limit
		p.Colls = 1
		p.Name = "huge"
		p.Names = []string{"huge"}
	case "tzwitness": // witness of the known finding on sub-minute zone offsets west of UTC
		p.Colls = 1
		p.Name = "tzwitness"
	case "ids": // C12
		p.AltIds = true
		p.Colls = 3
		p.MaxDocs = 6
		p.Invalid = 0.45
		p.W = weights(map[string]int{"Insert": 20, "InsertOne": 8, "Save": 8, "ReplaceById": 8, "UpdateById": 10, "Update": 6, "UpdateFunc": 6, "FindById": 10, "FindAll": 3, "Derived": 2})
	case "catalog": // C13
		p.PrefixNames = true
		p.Colls = 5
		p.MaxDocs = 5
		p.Invalid = 0.5
		p.W = weights(map[string]int{"CreateCollection": 12, "DropCollection": 8, "HasCollection": 6, "ListCollections": 6, "Insert": 12})
	case "indexcat": // C14
		p.AltIds = true
		p.Colls = 2
		p.Invalid = 0.3
		p.W = weights(map[string]int{"CreateIndex": 14, "DropIndex": 10, "HasIndex": 6, "ListIndexes": 6, "FindAll": 14, "Derived": 4})
		p.SortHeavy = true
		p.IdxPool = []string{"x", "xy", "n", "n.a", "x", "xy", "s", "x.y"}
	case "twins": // C02: collections differing only in their indexes
		p.AltIds = true
		p.Twins = 5 // no index, the filtered field, the sort field, an unrelated field, seven fields at once
		p.Colls = 5
		p.MaxDocs = 12
		p.SortHeavy = true
		p.Invalid = 0.02
		p.ReadAudit = 0
		p.Names = []string{"t0", "t1", "t2", "t3", "t4"}
	case "bulk", "bulkbig": // C03: one multi-page collection, one bulk operation
		p.Colls = 1
		p.Names = []string{"bulk"}
	case "io": // C19
		p.Colls = 4
		p.MaxDocs = 8
	case "reopen": // C05 (clean close / reopen after every prefix), C20 (calls after Close)
		p.CloseOps = true
		p.Ops = 24
		p.ReadAudit = 0
	case "closed": // C20: calls on a closed handle
		p.CloseOps = true
		p.Ops = 10
	case "extremes": // integer extremes, no indexes (C01 C08 C10 over the extremes table)
		p.NumTable = "extremes"
		p.Indexes = false
		p.SortHeavy = true
	case "alltimes": // C20: every instant, also before 1970 (index order is not claimed there - but nothing may panic)
		p.TimeTable = "far"
		p.Colls = 1
		p.SortHeavy = true
		p.Invalid = 0.02
		p.IdxPool = []string{"t", "t", "t", "x"}
		p.Aim = "t"
		p.W = weights(map[string]int{"FindAll": 20, "Derived": 6, "ForEach": 4, "DropCollection": 0, "Insert": 16, "DropIndex": 3, "CreateIndex": 4, "UpdateById": 6, "Delete": 3})
	case "fartimes": // times from 1970 to year 9999 in indexed, filtered and sorted fields
		p.TimeTable = "far1970"
		p.Colls = 1
		p.SortHeavy = true
		p.Invalid = 0.02
		p.IdxPool = []string{"t", "t", "t", "x"}
		p.Aim = "t"
		p.W = weights(map[string]int{"FindAll": 24, "Derived": 8, "ForEach": 4, "DropCollection": 0, "Insert": 16})
	case "strkeys": // strings with the bytes a key encoding must escape (0x00, 0xff, 0x01 after them) in indexed fields
		p.Colls = 1
		p.SortHeavy = true
		p.Invalid = 0.02
		p.IdxPool = []string{"s", "s", "s", "xy"}
		p.Aim = "s"
		p.W = weights(map[string]int{"FindAll": 24, "Derived": 8, "ForEach": 4, "DropCollection": 0, "Insert": 16})
	case "floats":
		p.NumTable = "floats"
		p.TimeTable = "wide"
		p.Indexes = false
		p.SortHeavy = true
	}
	return p
}

var bulkSizes = []int{0, 1, 2, 3, 7, 40, 64, 100, 150, 200, 350, 1100, 12, 30}
var bulkSizesBig = []int{800, 1000, 1500, 2000, 3000}

func generate(p *Profile, seed int64) ([]E, *Universe) {
	g := NewGen(seed, p)
	switch {
	case p.Twins > 0:
		return g.HistoryTwins(), g.U
	case p.Name == "bulk":
		return g.HistoryBulk(bulkSizes[int(seed%int64(len(bulkSizes)))]), g.U
	case p.Name == "bulkbig":
		return g.HistoryBulk(bulkSizesBig[int(seed%int64(len(bulkSizesBig)))]), g.U
	case p.Name == "tzwitness":
		c := g.colls[0]
		d := AObj("_id", AStr(g.ids[0]), "t", ATime(2, len(zoneTable)-1))
		return []E{{"op": "CreateCollection", "c": c}, {"op": "Insert", "c": c, "docs": []interface{}{d}},
			{"op": "FindById", "c": c, "id": B(g.ids[0])}}, g.U
	case p.Name == "retype" || p.Name == "retypereopen":
		return g.HistoryRetype(), g.U
	case p.Name == "expiry":
		return g.HistoryExpiry(), g.U
	case p.Name == "longstr":
		return g.HistoryLongStr(), g.U
	case p.Name == "runs":
		return g.HistoryRuns(), g.U
	case p.Name == "shrinkreopen":
		return g.HistoryShrinkReopen(), g.U
	case p.Name == "algebra":
		return g.HistoryAlgebra(), g.U
	case p.Name == "huge":
		return g.HistoryHuge(), g.U
	case p.Name == "io":
		// the handle is closed at the end: a leaked store transaction would make Close wait forever
		return append(g.HistoryIO(), E{"op": "Close"}), g.U
	case p.CloseOps || p.Name == "richreopen":
		return g.HistoryReopen(), g.U
	}
	return g.History(), g.U
}
