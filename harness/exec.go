package main

// Executor: runs abstract events against the real clover code, one run per backend, and records
// outcome class, abstracted return value and (optionally) the key-space audit.

import (
	"bytes"
	"encoding/json"
	"errors"
	"fmt"
	"math"
	"os"
	"path/filepath"
	"regexp"
	"runtime/debug"
	"strings"
	"sync"
	"time"

	badgerdb "github.com/dgraph-io/badger/v4"
	clover "github.com/ostafen/clover/v2"
	"github.com/ostafen/clover/v2/document"
	"github.com/ostafen/clover/v2/index"
	"github.com/ostafen/clover/v2/query"
	"github.com/ostafen/clover/v2/store"
	badgerstore "github.com/ostafen/clover/v2/store/badger"
	boltstore "github.com/ostafen/clover/v2/store/bbolt"
)

type E = map[string]interface{}

var callDeadline = 60 * time.Second // "never blocks forever" is decided up to this deadline

// ---------------------------------------------------------------- backends

type Backend struct {
	Name string
	dir  string
	st   store.Store // the adapter itself: audits and direct store observations never go through a wrapper
	in   *injector   // set when the handle runs over the fault-injecting wrapper
	db   *clover.DB
	open bool
	dead bool // a call timed out: the handle may be wedged, stop using it (only read after the calls are over)
	dmu  sync.Mutex
	wrap func(store.Store) store.Store
	// strings clover returned earlier, kept as they were handed out, next to copies of their bytes: Go
	// strings are immutable, so they must still read the same after any number of later calls
	heldMu   sync.Mutex // concurrent programs call into one Backend from several goroutines
	held     [][]string
	heldCopy [][]string
	// every call runs in a goroutine of its own (deadline); enter, when set, is told the calling
	// goroutine from inside the new one and returns what to do when the call is over
	enter func(parent int64) func()
}

func objWithout(obj V, key string) V {
	out := V{"obj", []interface{}{}}
	if len(obj) < 2 || obj[0] != "obj" {
		return obj
	}
	for _, kv := range toList(obj[1]) {
		p := toList(kv)
		if string(toBytes(p[0])) != key {
			out = ObjSet(out, string(toBytes(p[0])), toV(p[1]))
		}
	}
	return out
}

func (b *Backend) hold(v []string) {
	cp := make([]string, len(v))
	for i, s := range v {
		cp[i] = string(append([]byte(nil), s...))
	}
	b.heldMu.Lock()
	defer b.heldMu.Unlock()
	if len(b.held) >= 4 {
		b.held, b.heldCopy = b.held[1:], b.heldCopy[1:]
	}
	b.held, b.heldCopy = append(b.held, v), append(b.heldCopy, cp)
}

// heldIntact reports whether every string kept by hold still reads as it did.
func (b *Backend) heldIntact() (ok bool) {
	b.heldMu.Lock()
	defer b.heldMu.Unlock()
	defer func() {
		if recover() != nil {
			ok = false
		}
	}()
	for i := range b.held {
		for j := range b.held[i] {
			if b.held[i][j] != b.heldCopy[i][j] {
				return false
			}
		}
	}
	return true
}

func openStore(name, dir string) (store.Store, error) {
	switch name {
	case "bolt":
		return boltstore.Open(dir)
	case "badger":
		return badgerstore.OpenWithOptions(badgerdb.DefaultOptions(dir).WithLoggingLevel(badgerdb.ERROR))
	case "badgermem":
		return badgerstore.OpenWithOptions(badgerdb.DefaultOptions("").WithInMemory(true).WithLoggingLevel(badgerdb.ERROR))
	}
	return nil, fmt.Errorf("unknown backend %s", name)
}

func NewBackend(name, baseDir string, wrap func(store.Store) store.Store) (*Backend, error) {
	b := &Backend{Name: name, wrap: wrap}
	if name != "badgermem" {
		dir, err := os.MkdirTemp(baseDir, name+"-")
		if err != nil {
			return nil, err
		}
		b.dir = dir
	}
	if err := b.reopen(); err != nil {
		return nil, err
	}
	return b, nil
}

func (b *Backend) reopen() error {
	st, err := openStore(b.Name, b.dir)
	if err != nil {
		return err
	}
	var used store.Store = st
	if b.wrap != nil {
		used = b.wrap(st)
	}
	db, err := clover.OpenWithStore(used)
	if err != nil {
		return err
	}
	b.st, b.db, b.open = st, db, true
	return nil
}

func (b *Backend) Destroy() {
	if b.open && !b.dead {
		done := make(chan struct{})
		go func() { defer func() { recover(); close(done) }(); b.db.Close() }()
		select {
		case <-done:
		case <-time.After(5 * time.Second):
		}
	}
	if b.dir != "" {
		os.RemoveAll(b.dir)
	}
}

// ---------------------------------------------------------------- outcome capture

// the error an IterateDocs consumer of the harness returns to stop the iteration
var errConsumer = errors.New("harness: consumer error")

func errClass(err error) string {
	switch {
	case errors.Is(err, clover.ErrCollectionExist):
		return "ErrCollectionExist"
	case errors.Is(err, clover.ErrCollectionNotExist):
		return "ErrCollectionNotExist"
	case errors.Is(err, clover.ErrIndexExist):
		return "ErrIndexExist"
	case errors.Is(err, clover.ErrIndexNotExist):
		return "ErrIndexNotExist"
	case errors.Is(err, clover.ErrDocumentNotExist):
		return "ErrDocumentNotExist"
	case errors.Is(err, clover.ErrDuplicateKey):
		return "ErrDuplicateKey"
	case errors.Is(err, errConsumer):
		return "consumer"
	}
	return "other"
}

// panicSite keeps the clover frames of a panic stack (diagnosis only).
func panicSite(stack string) string {
	var out []string
	lines := strings.Split(stack, "\n")
	for i, l := range lines {
		if strings.Contains(l, "ostafen/clover") && !strings.Contains(l, "verifharness") && i+1 < len(lines) {
			out = append(out, strings.TrimSpace(l)+" @ "+strings.TrimSpace(lines[i+1]))
		}
		if len(out) >= 6 {
			break
		}
	}
	if len(out) == 0 { // not in clover: keep the innermost frames, whatever they are
		for i, l := range lines {
			if i > 6 && i < 20 {
				out = append(out, strings.TrimSpace(l))
			}
		}
	}
	return strings.Join(out, " | ")
}

// guarded runs fn under recover() and a deadline.  fn fills res and returns the call's error.
func (b *Backend) guarded(fn func(res E) error) E {
	type outT struct {
		res E
	}
	ch := make(chan E, 1)
	var parent int64
	if b.enter != nil {
		parent = goid()
	}
	go func() {
		if b.enter != nil {
			defer b.enter(parent)()
		}
		res := E{}
		defer func() {
			if r := recover(); r != nil {
				msg := fmt.Sprint(r)
				if len(msg) > 200 {
					msg = msg[:200]
				}
				stack := string(debug.Stack())
				if !strings.Contains(stack, "github.com/ostafen/clover/v2") {
					// the harness itself is broken: no verdict may come out of this run
					fmt.Fprintf(os.Stderr, "HARNESS PANIC: %s\n%s\n", msg, stack)
					os.Exit(3)
				}
				ch <- E{"st": "panic", "err": "panic", "msg": msg, "stack": panicSite(stack)}
			}
		}()
		err := fn(res)
		if err != nil {
			res["st"] = "err"
			res["err"] = errClass(err)
			if isConflict(err) {
				res["conflict"] = 1
			}
			if isStoreLimit(err) { // the store refused the transaction as a whole (e.g. too big): no effect
				res["conflict"] = 1
				res["storelimit"] = 1
			}
			msg := err.Error()
			if len(msg) > 200 {
				msg = msg[:200]
			}
			res["msg"] = msg
		} else {
			res["st"] = "ok"
			res["err"] = ""
		}
		ch <- res
	}()
	select {
	case r := <-ch:
		return r
	case <-time.After(callDeadline):
		b.dmu.Lock()
		b.dead = true
		b.dmu.Unlock()
		return E{"st": "timeout", "err": "timeout"}
	}
}

// ---------------------------------------------------------------- gamma for documents, criteria, queries

type Exec struct {
	U        *Universe
	Backends []*Backend
	FileDir  string
	qcache   map[string]*query.Query // query values kept across calls (sequential drivers only)
	Gate     *gate                   // when set, an UpdateFunc event carrying "gate" holds its transaction open at its first callback
}

// gate turns the update callback of one operation into a scheduling point: the operation signals
// that its store transaction is open (snapshot taken) and waits until the driver releases it.
type gate struct {
	started chan struct{}
	release chan struct{}
	once    sync.Once
}

func (x *Exec) gammaDoc(v V) *document.Document {
	m := x.U.Gamma(v).(map[string]interface{})
	return document.NewDocumentOf(m)
}

func (x *Exec) alphaDoc(d *document.Document) V {
	if d == nil {
		return V{"unknown", "nil-document"}
	}
	return x.U.Alpha(d.ToMap())
}

// alphaRead abstracts a document that a read handed to the caller, and then behaves like a caller who owns it:
// it looks at the document through every accessor (they are views of one value: a disagreement is logged as
// harm) and afterwards overwrites it, nested containers included, so that a later call which still shares
// memory with it would read the scribble.
func (x *Exec) alphaRead(res E, d *document.Document) V {
	v := x.alphaDoc(d)
	if d == nil {
		return v
	}
	if why := x.viewsDisagree(d, v); why != "" && res["harm"] == nil {
		res["harm"] = "accessors of a returned document disagree: " + why
	}
	scribbleDoc(d)
	return v
}

func (x *Exec) viewsDisagree(d *document.Document, v V) (why string) {
	defer func() {
		if r := recover(); r != nil {
			why = fmt.Sprint("panic: ", r)
		}
	}()
	same := func(a, b V) bool { return fmt.Sprint(a) == fmt.Sprint(b) }
	if !same(x.U.Alpha(d.AsMap()), v) {
		return "AsMap"
	}
	if !same(x.U.Alpha(d.Copy().ToMap()), v) {
		return "Copy"
	}
	m := d.ToMap()
	top := d.Fields(false)
	if len(top) != len(m) {
		return "Fields"
	}
	for _, f := range top {
		mv, ok := m[f]
		if !ok {
			return "Fields"
		}
		if strings.Contains(f, ".") {
			continue // Get and Has read a dotted name as a path
		}
		if !d.Has(f) || !same(x.U.Alpha(d.Get(f)), x.U.Alpha(mv)) {
			return "Get " + f
		}
	}
	if id, _ := m["_id"].(string); id != d.ObjectId() {
		return "ObjectId"
	}
	exp, isTime := m["_expiresAt"].(time.Time)
	if _, dotted := m["_expiresAt"]; dotted || !strings.Contains(strings.Join(top, " "), "_expiresAt.") {
		switch e := d.ExpiresAt(); {
		case isTime && (e == nil || !e.Equal(exp)), !isTime && e != nil:
			return "ExpiresAt"
		}
		// the clock is read before and after the call: an expiration before the first reading has passed for
		// TTL too, one after the second reading (by more than TTL's millisecond granularity) has not
		t0 := time.Now()
		ttl := d.TTL()
		t1 := time.Now()
		switch {
		case !isTime && ttl != -1, isTime && exp.Before(t0) && ttl != 0, isTime && exp.After(t1.Add(5*time.Millisecond)) && ttl <= 0:
			return "TTL"
		}
	}
	return ""
}

func scribbleDoc(d *document.Document) {
	defer func() { recover() }()
	var walk func(v interface{})
	walk = func(v interface{}) {
		switch t := v.(type) {
		case map[string]interface{}:
			for k, e := range t {
				walk(e)
				t[k] = "scribble"
			}
			t["scribble"] = int64(1)
		case []interface{}:
			for i, e := range t {
				walk(e)
				t[i] = "scribble"
			}
		}
	}
	for _, f := range d.Fields(false) {
		if strings.Contains(f, ".") {
			continue
		}
		walk(d.Get(f))
		d.Set(f, "scribble")
	}
	d.Set("scribble", true)
}

func str(x interface{}) string { return string(toBytes(x)) }

var namedFns = map[string]func(f string) func(*document.Document) bool{
	"true":  func(string) func(*document.Document) bool { return func(*document.Document) bool { return true } },
	"false": func(string) func(*document.Document) bool { return func(*document.Document) bool { return false } },
	"has": func(f string) func(*document.Document) bool {
		return func(d *document.Document) bool { return d.Has(f) }
	},
	"isnum": func(f string) func(*document.Document) bool {
		return func(d *document.Document) bool {
			switch d.Get(f).(type) {
			case int64, uint64, float64:
				return true
			}
			return false
		}
	},
	"isstr": func(f string) func(*document.Document) bool {
		return func(d *document.Document) bool { _, ok := d.Get(f).(string); return ok }
	},
}

func (x *Exec) gammaOperand(o []interface{}) interface{} {
	switch o[0].(string) {
	case "lit":
		kind := ""
		if len(o) > 2 {
			kind, _ = o[2].(string)
		}
		v, ok := x.U.GammaKind(toV(o[1]), kind)
		if !ok {
			v = x.U.Gamma(toV(o[1]))
		}
		return v
	case "ref":
		return query.Field(str(o[1]))
	case "dollar":
		return "$" + str(o[1])
	}
	panic(fmt.Sprintf("bad operand %v", o))
}

func patternOf(kind string, lit string) string {
	q := regexp.QuoteMeta(lit)
	switch kind {
	case "any":
		return ""
	case "exact":
		return "^" + q + "$"
	case "prefix":
		return "^" + q
	case "suffix":
		return q + "$"
	case "contains":
		return q
	}
	panic("bad pattern kind " + kind)
}

func (x *Exec) gammaCrit(c []interface{}) query.Criteria {
	if (c[0] == "un" || c[0] == "sugar") && len(c) > 3 {
		plainOperand(toList(c[3]))
	}
	switch c[0].(string) {
	case "sugar": // the derived builders of query.Field
		f := query.Field(str(c[2]))
		switch c[1].(string) {
		case "neq":
			return f.Neq(x.gammaOperand(toList(c[3])))
		case "notexists":
			return f.NotExists()
		case "isnil":
			return f.IsNil()
		case "istrue":
			return f.IsTrue()
		case "isfalse":
			return f.IsFalse()
		case "isnilornotexists":
			return f.IsNilOrNotExists()
		}
	case "un":
		op := c[1].(string)
		f := query.Field(str(c[2]))
		o := toList(c[3])
		switch op {
		case "exists":
			return f.Exists()
		case "eq":
			return f.Eq(x.gammaOperand(o))
		case "gt":
			return f.Gt(x.gammaOperand(o))
		case "gte":
			return f.GtEq(x.gammaOperand(o))
		case "lt":
			return f.Lt(x.gammaOperand(o))
		case "lte":
			return f.LtEq(x.gammaOperand(o))
		case "in", "contains":
			var vals []interface{}
			for _, e := range toList(o[1]) {
				vals = append(vals, x.gammaOperand(toList(e)))
			}
			if op == "in" {
				return f.In(vals...)
			}
			return f.Contains(vals...)
		case "like":
			return f.Like(patternOf(o[1].(string), str(o[2])))
		case "fn":
			// a MatchFunc criterion can only be built through Query.MatchFunc; as a sub-criterion we
			// obtain it from a scratch query
			p := namedFns[o[1].(string)](str(o[2]))
			return query.NewQuery("").MatchFunc(p).Criteria()
		}
	case "and":
		return x.gammaCrit(toList(c[1])).And(x.gammaCrit(toList(c[2])))
	case "or":
		return x.gammaCrit(toList(c[1])).Or(x.gammaCrit(toList(c[2])))
	case "not":
		return x.gammaCrit(toList(c[1])).Not()
	}
	panic(fmt.Sprintf("bad criteria %v", c))
}

// TLC integers have 32 bits: window arguments above hugeBase stand for the extreme Go ints.  The
// model reads them as the (still larger than any collection) token values, which window a result
// exactly as the extreme values do.
const hugeBase = 1000000000

var hugeArgs = []int{math.MaxInt, math.MaxInt - 2, 1 << 62, math.MaxInt/2 + 1, math.MaxInt32 + 1, math.MaxInt - 50}

func windowArg(n int) int {
	if n > hugeBase && n-hugeBase <= len(hugeArgs) {
		return hugeArgs[n-hugeBase-1]
	}
	return n
}

// query returns the query value of an event.  Sequential drivers keep the values they built: a caller may use
// one Query (and its Criteria) for any number of calls, on any number of handles, and each call must read it as
// the first one did - state that a call leaves inside the value, invisible to the fingerprint of its public
// accessors, shows in the results of the calls that follow.
func (x *Exec) query(e E) *query.Query {
	if x.qcache == nil {
		return x.gammaQuery(e)
	}
	k, _ := json.Marshal([]interface{}{e["c"], e["q"]})
	if q, ok := x.qcache[string(k)]; ok {
		return q
	}
	q := x.gammaQuery(e)
	if len(x.qcache) < 4096 {
		x.qcache[string(k)] = q
	}
	return q
}

func (x *Exec) gammaQuery(e E) *query.Query {
	q := query.NewQuery(unescName(e["c"].(string)))
	for _, b := range toList(e["q"]) {
		bl := toList(b)
		switch bl[0].(string) {
		case "where":
			q = q.Where(x.gammaCrit(toList(bl[1])))
		case "match":
			q = q.MatchFunc(namedFns[bl[1].(string)](str(bl[2])))
		case "skip":
			q = q.Skip(windowArg(toInt(bl[1])))
		case "limit":
			q = q.Limit(windowArg(toInt(bl[1])))
		case "sort":
			var opts []query.SortOption
			for _, o := range toList(bl[1]) {
				ol := toList(o)
				opts = append(opts, query.SortOption{Field: str(ol[0]), Direction: toInt(ol[1])})
			}
			q = q.Sort(opts...)
		}
	}
	return q
}

// fingerprint of a query object through its public accessors (C09: calls leave it unchanged)
type fpVisitor struct{ sb *strings.Builder }

func (v fpVisitor) VisitUnaryCriteria(c *query.UnaryCriteria) interface{} {
	fmt.Fprintf(v.sb, "(u %d %q %s)", c.OpType, c.Field, fpValue(c.Value))
	return nil
}

// fpValue renders an operand without pointer addresses.
func fpValue(x interface{}) string {
	switch t := x.(type) {
	case func(*document.Document) bool:
		return "fn"
	case []interface{}:
		parts := make([]string, 0, len(t))
		for _, e := range t {
			parts = append(parts, fpValue(e))
		}
		return "[" + strings.Join(parts, ",") + "]"
	}
	if query.IsField(x) {
		return "field"
	}
	return fmt.Sprintf("%T:%#v", x, x)
}
func (v fpVisitor) VisitNotCriteria(c *query.NotCriteria) interface{} {
	v.sb.WriteString("(not ")
	c.C.Accept(v)
	v.sb.WriteString(")")
	return nil
}
func (v fpVisitor) VisitBinaryCriteria(c *query.BinaryCriteria) interface{} {
	fmt.Fprintf(v.sb, "(b %d ", c.OpType)
	c.C1.Accept(v)
	v.sb.WriteString(" ")
	c.C2.Accept(v)
	v.sb.WriteString(")")
	return nil
}

func queryFingerprint(q *query.Query) string {
	sb := &strings.Builder{}
	fmt.Fprintf(sb, "%q|%d|%d|%v|", q.Collection(), q.GetSkip(), q.GetLimit(), q.SortOptions())
	if q.Criteria() != nil {
		q.Criteria().Accept(fpVisitor{sb})
	}
	return sb.String()
}

// ill-formed dump files: none of them is a JSON array of objects
var badFiles = []string{
	"[{\"a\": 1}, {oops",
	"[{\"_id\":\"00000000-0000-4000-8000-0000000000aa\",\"x\":1}", // cut after a complete document
	"[", // cut after the opening bracket
	"[{\"_id\":\"00000000-0000-4000-8000-0000000000aa\",\"x\":1},", // cut after a comma
	"{\"_id\":\"00000000-0000-4000-8000-0000000000aa\"}",           // an object, not an array
	"",       // empty
	"[1, 2]", // an array of non-objects
	"[{\"_id\":\"00000000-0000-4000-8000-0000000000aa\",\"x\":1}, null]", // a document and a null
	"[null]",
	"[{\"_id\":\"00000000-0000-4000-8000-0000000000aa\",\"x\":1}] trailing",                                        // text after the array
	"[{\"_id\":\"00000000-0000-4000-8000-0000000000aa\",\"x\":1}]\n[{\"_id\":\"00000000-0000-4000-8000-0000000000ab\"}]\n", // two arrays
	"[]]",
	"[{\"_id\":\"00000000-0000-4000-8000-0000000000aa\",\"x\":1}, {\"_id\":\"00000000-0000-4000-8000-0000000000ab\"}", // two documents, no closing bracket
}

// ---------------------------------------------------------------- named updaters

// idForm spells a UUID in another of the textual forms uuid.FromString accepts
func idForm(id, kind string) string {
	switch kind {
	case "upper":
		b := []byte(id)
		for i, ch := range b {
			if ch >= 'a' && ch <= 'f' {
				b[i] = ch - 32
			}
		}
		return string(b)
	case "braces":
		return "{" + id + "}"
	case "bare": // the UUID inside a urn: or braced spelling (a suffix of the stored id)
		id = strings.TrimPrefix(id, "urn:uuid:")
		if len(id) > 2 && id[0] == '{' && id[len(id)-1] == '}' {
			id = id[1 : len(id)-1]
		}
		return id
	}
	return "urn:uuid:" + id
}

func copySlice(s []interface{}) []interface{} {
	out := make([]interface{}, len(s))
	copy(out, s)
	return out
}

func (x *Exec) updater(u []interface{}) func(*document.Document) *document.Document {
	name := u[0].(string)
	switch name {
	case "set":
		path, val := str(u[1]), x.U.Gamma(toV(u[2]))
		return func(d *document.Document) *document.Document { c := d.Copy(); c.Set(path, val); return c }
	case "setInPlace":
		path, val := str(u[1]), x.U.Gamma(toV(u[2]))
		return func(d *document.Document) *document.Document { d.Set(path, val); return d }
	case "unset":
		key := str(u[1])
		return func(d *document.Document) *document.Document {
			m := d.ToMap()
			delete(m, key)
			return document.NewDocumentOf(m)
		}
	case "id":
		return func(d *document.Document) *document.Document { return d }
	case "idform":
		kind := u[1].(string)
		return func(d *document.Document) *document.Document {
			c := d.Copy()
			c.Set("_id", idForm(d.ObjectId(), kind))
			return c
		}
	case "nil":
		return func(d *document.Document) *document.Document { return nil }
	case "append", "appendInPlace":
		path, val := str(u[1]), x.U.Gamma(toV(u[2]))
		return func(d *document.Document) *document.Document {
			var ns []interface{}
			if s, ok := d.Get(path).([]interface{}); ok {
				ns = append(copySlice(s), val)
			} else {
				ns = []interface{}{val}
			}
			if name == "appendInPlace" {
				d.Set(path, ns)
				return d
			}
			c := d.Copy()
			c.Set(path, ns)
			return c
		}
	}
	panic("unknown updater " + name)
}

// ---------------------------------------------------------------- the audit

type recTx struct{ key []byte }

func (t *recTx) Set(key, value []byte) error               { t.key = append([]byte(nil), key...); return nil }
func (t *recTx) Get(key []byte) ([]byte, error)            { return nil, nil }
func (t *recTx) Delete(key []byte) error                   { return nil }
func (t *recTx) Cursor(forward bool) (store.Cursor, error) { return nil, errors.New("no cursor") }
func (t *recTx) Commit() error                             { return nil }
func (t *recTx) Rollback() error                           { return nil }

// indexKey asks the real index code for the key of (collection, field, value, id).
func indexKey(coll, field string, v interface{}, id string) (key []byte, err error) {
	defer func() {
		if r := recover(); r != nil {
			err = fmt.Errorf("panic: %v", r)
		}
	}()
	tx := &recTx{}
	idx := index.CreateIndex(coll, field, index.SingleField, tx)
	if e := idx.Add(id, v, -1); e != nil {
		return nil, e
	}
	return tx.key, nil
}

type rawEntry struct {
	field string
	id    string
	key   []byte
}

type auditColl struct {
	name    string
	hasMeta bool
	size    int
	idx     []string
	docIds  []string
	docs    map[string]*document.Document
	docRaw  map[string]V
	entries []rawEntry
}

// Audit walks the whole key space through the store interface (not through clover's query path)
// and projects it: catalog, Size, index list, documents, index entries, anything unparseable.
func (x *Exec) Audit(b *Backend) (res E) {
	defer func() {
		if r := recover(); r != nil {
			res = E{"failed": fmt.Sprint(r)}
		}
	}()
	tx, err := b.st.Begin(false)
	if err != nil {
		return E{"failed": err.Error()}
	}
	defer tx.Rollback()
	cur, err := tx.Cursor(true)
	if err != nil {
		return E{"failed": err.Error()}
	}
	defer cur.Close()

	colls := map[string]*auditColl{}
	var order []string
	get := func(name string) *auditColl {
		c := colls[name]
		if c == nil {
			c = &auditColl{name: name, docs: map[string]*document.Document{}, docRaw: map[string]V{}}
			colls[name] = c
			order = append(order, name)
		}
		return c
	}
	junk := make([]interface{}, 0)

	if err := cur.Seek([]byte{}); err != nil {
		return E{"failed": err.Error()}
	}
	for ; cur.Valid(); cur.Next() {
		item, err := cur.Item()
		if err != nil {
			return E{"failed": err.Error()}
		}
		key := append([]byte(nil), item.Key...)
		val := append([]byte(nil), item.Value...)
		switch {
		case bytes.HasPrefix(key, []byte("coll:")):
			c := get(string(key[5:]))
			var meta struct {
				Size    int
				Indexes []index.Info
			}
			if err := json.Unmarshal(val, &meta); err != nil {
				junk = append(junk, fmt.Sprintf("badmeta:%x", key))
				continue
			}
			c.hasMeta = true
			c.size = meta.Size
			for _, i := range meta.Indexes {
				c.idx = append(c.idx, i.Field)
			}
		case bytes.HasPrefix(key, []byte("c:")):
			rest := key[2:]
			semi := bytes.IndexByte(rest, ';')
			if semi < 0 {
				junk = append(junk, fmt.Sprintf("%x", key))
				continue
			}
			c := get(string(rest[:semi]))
			rest = rest[semi+1:]
			switch {
			case bytes.HasPrefix(rest, []byte("d:")):
				id := string(rest[2:])
				c.docIds = append(c.docIds, id)
				d, err := document.Decode(val)
				if err != nil {
					c.docRaw[id] = V{"unknown", "undecodable"}
				} else {
					c.docs[id] = d
					c.docRaw[id] = x.alphaDoc(d)
				}
			case bytes.HasPrefix(rest, []byte("i:")):
				rest = rest[2:]
				semi := bytes.IndexByte(rest, ';')
				if semi < 0 {
					junk = append(junk, fmt.Sprintf("%x", key))
					continue
				}
				c.entries = append(c.entries, rawEntry{field: string(rest[:semi]), key: key})
			default:
				junk = append(junk, fmt.Sprintf("%x", key))
			}
		default:
			junk = append(junk, fmt.Sprintf("%x", key))
		}
	}

	outColls := make([]interface{}, 0)
	orphans := make([]interface{}, 0)
	for _, name := range order {
		c := colls[name]
		if !c.hasMeta {
			orphans = append(orphans, []interface{}{escName(name), len(c.docIds), len(c.entries)})
			continue
		}
		docs := make([]interface{}, 0, len(c.docIds))
		for _, id := range c.docIds {
			docs = append(docs, []interface{}{B(id), c.docRaw[id]})
		}
		entries := make([]interface{}, 0, len(c.entries))
		// whose entry is it?  Ids have several lengths: the entry of document id is the key the index
		// code builds for the document's current value of the field; an entry that is nobody's
		// current one is attributed to the longest stored id it ends with, else to its last 36 bytes.
		current := map[string]string{}
		fields := map[string]bool{}
		for _, en := range c.entries {
			fields[en.field] = true
		}
		for f := range fields {
			for _, id := range c.docIds {
				if d := c.docs[id]; d != nil {
					if want, err := indexKey(name, f, d.Get(f), id); err == nil {
						current[string(want)] = id
					}
				}
			}
		}
		for _, en := range c.entries {
			cur := 0
			if id, ok := current[string(en.key)]; ok {
				en.id, cur = id, 1
			} else {
				for _, id := range c.docIds {
					if len(id) > len(en.id) && bytes.HasSuffix(en.key, []byte(id)) {
						en.id = id
					}
				}
				if en.id == "" {
					en.id = string(en.key[max(0, len(en.key)-36):])
				}
			}
			entries = append(entries, []interface{}{B(en.field), B(en.id), cur})
		}
		idx := make([]interface{}, 0)
		for _, f := range c.idx {
			idx = append(idx, B(f))
		}
		outColls = append(outColls, E{"name": escName(name), "size": c.size, "idx": idx, "docs": docs, "entries": entries})
	}
	return E{"colls": outColls, "orphans": orphans, "junk": junk}
}

// ---------------------------------------------------------------- executing one event

func (x *Exec) filePath(p interface{}) string { return filepath.Join(x.FileDir, p.(string)) }

func optDoc(x *Exec, res E, d *document.Document) []interface{} {
	if d == nil {
		return []interface{}{}
	}
	return []interface{}{x.alphaRead(res, d)}
}

func (x *Exec) alphaDocs(res E, ds []*document.Document) []interface{} {
	out := make([]interface{}, 0, len(ds))
	// a document of the result that shares memory with an earlier one is read after that one was scribbled over
	for _, d := range ds {
		out = append(out, x.alphaRead(res, d))
	}
	return out
}

// plainLiterals: to clover a string operand that begins with '$' names a field, whatever a generator that drew it
// from a pool of strings meant; such a literal is respelled (in place, before the event runs and is logged), so
// that "lit" operands are literals.  References are generated on purpose, as "ref" and "dollar" operands.
func plainLiterals(c []interface{}) {
	if len(c) == 0 {
		return
	}
	switch c[0] {
	case "un", "sugar":
		if len(c) > 3 {
			plainOperand(toList(c[3]))
		}
	case "and", "or":
		plainLiterals(toList(c[1]))
		plainLiterals(toList(c[2]))
	case "not":
		plainLiterals(toList(c[1]))
	}
}

func plainOperand(o []interface{}) {
	if len(o) < 2 {
		return
	}
	switch o[0] {
	case "lit":
		if v, ok := o[1].(V); ok && len(v) == 2 && v[0] == "str" {
			if b := toBytes(v[1]); len(b) > 0 && b[0] == '$' {
				o[1] = AStr("S" + string(b[1:]))
			}
		}
	case "list":
		for _, e := range toList(o[1]) {
			plainOperand(toList(e))
		}
	}
}

// forEachStop runs ForEach with a consumer that returns false at its j-th call (j = 0: never).
func (x *Exec) forEachStop(res E, db *clover.DB, q *query.Query, j int) ([]interface{}, error) {
	visits := make([]interface{}, 0)
	n := 0
	var kept []*document.Document
	err := db.ForEach(q, func(d *document.Document) bool {
		n++
		// every other visit the consumer keeps the document as it is (it owns it once it has been handed over), the
		// other visits it overwrites it on the spot
		if n%2 == 1 {
			visits = append(visits, x.alphaDoc(d))
			kept = append(kept, d)
		} else {
			visits = append(visits, x.alphaRead(res, d))
			kept = append(kept, nil)
		}
		return !(j > 0 && n >= j)
	})
	x.keptIntact(res, kept, visits)
	return visits, err
}

// keptIntact: the documents a consumer kept read, after the call, as they read when they were handed over.
func (x *Exec) keptIntact(res E, kept []*document.Document, visits []interface{}) {
	for i, d := range kept {
		if d == nil {
			continue
		}
		if fmt.Sprint(x.alphaDoc(d)) != fmt.Sprint(visits[i]) && res["harm"] == nil {
			res["harm"] = "a document handed to a consumer reads differently after the call"
		}
		x.alphaRead(res, d) // the views, then the scribble
	}
}

// Run executes event e on backend b.  genIds carries the ids generated on the first backend so that
// every backend stores the same documents.
func (x *Exec) Run(b *Backend, e E, genIds [][]byte) E {
	op := e["op"].(string)
	for _, step := range toList(e["q"]) {
		if st := toList(step); len(st) == 2 && st[0] == "where" {
			plainLiterals(toList(st[1]))
		}
	}
	db := b.db
	coll, _ := e["c"].(string)
	coll = unescName(coll)

	res := b.guarded(func(res E) error {
		switch op {
		case "CreateCollection":
			return db.CreateCollection(coll)
		case "DropCollection":
			return db.DropCollection(coll)
		case "HasCollection":
			v, err := db.HasCollection(coll)
			res["val"] = v
			return err
		case "ListCollections":
			v, err := db.ListCollections()
			out := make([]interface{}, 0)
			for _, s := range v {
				out = append(out, escName(s))
			}
			res["val"] = out
			b.hold(v)
			return err
		case "Insert", "InsertOne", "Save":
			var docs []*document.Document
			for i, d := range toList(e["docs"]) {
				doc := x.gammaDoc(toV(d))
				if genIds != nil && i < len(genIds) && genIds[i] != nil {
					if !doc.Has("_id") || doc.Get("_id") == "" {
						doc.Set("_id", string(genIds[i]))
					}
				}
				docs = append(docs, doc)
			}
			before := make([]V, len(docs))
			for i, d := range docs {
				before[i] = x.alphaDoc(d)
			}
			defer func() {
				// the caller's documents are the caller's: apart from the _id an insert assigns, they
				// read afterwards as they did before
				for i, d := range docs {
					after := x.alphaDoc(d)
					if _, had := ObjGet(before[i], "_id"); !had {
						after = objWithout(after, "_id")
					} else if v, _ := ObjGet(before[i], "_id"); fmt.Sprint(v) == fmt.Sprint(AStr("")) {
						after, before[i] = objWithout(after, "_id"), objWithout(before[i], "_id")
					}
					if fmt.Sprint(after) != fmt.Sprint(before[i]) {
						res["harm"] = "a document passed to " + op + " reads differently after the call"
					}
				}
				// ... and the caller may go on using them
				for _, d := range docs {
					scribbleDoc(d)
				}
			}()
			var err error
			switch op {
			case "Insert":
				err = db.Insert(coll, docs...)
			case "InsertOne":
				var id string
				id, err = db.InsertOne(coll, docs[0])
				res["val"] = B(id)
			case "Save":
				err = db.Save(coll, docs[0])
			}
			ids := make([]interface{}, 0)
			for _, d := range docs {
				ids = append(ids, B(d.ObjectId()))
			}
			res["ids"] = ids
			return err
		case "ReplaceById":
			return db.ReplaceById(coll, str(e["id"]), x.gammaDoc(toV(toList(e["docs"])[0])))
		case "UpdateById":
			return db.UpdateById(coll, str(e["id"]), x.updater(toList(e["upd"])))
		case "Update":
			upd := toList(e["upd"]) // ["setall", [[path, v]...]]
			m := map[string]interface{}{}
			for _, p := range toList(upd[1]) {
				pl := toList(p)
				m[str(pl[0])] = x.U.Gamma(toV(pl[1]))
			}
			return db.Update(x.query(e), m)
		case "UpdateFunc":
			inner := x.updater(toList(e["upd"]))
			calls := make([]interface{}, 0)
			_, gated := e["gate"]
			err := db.UpdateFunc(x.query(e), func(d *document.Document) *document.Document {
				if gated && x.Gate != nil {
					x.Gate.once.Do(func() {
						close(x.Gate.started)
						<-x.Gate.release
					})
				}
				calls = append(calls, x.alphaDoc(d))
				return inner(d)
			})
			res["calls"] = calls
			return err
		case "Delete":
			return db.Delete(x.query(e))
		case "DeleteById":
			return db.DeleteById(coll, str(e["id"]))
		case "CreateIndex":
			return db.CreateIndex(coll, str(e["f"]))
		case "DropIndex":
			return db.DropIndex(coll, str(e["f"]))
		case "HasIndex":
			v, err := db.HasIndex(coll, str(e["f"]))
			res["val"] = v
			return err
		case "ListIndexes":
			v, err := db.ListIndexes(coll)
			out := make([]interface{}, 0)
			for _, i := range v {
				out = append(out, B(i.Field))
			}
			res["val"] = out
			return err
		case "FindById":
			d, err := db.FindById(coll, str(e["id"]))
			res["val"] = optDoc(x, res, d)
			return err
		case "FindAll":
			q := x.query(e)
			fp := queryFingerprint(q)
			ds, err := db.FindAll(q)
			res["val"] = x.alphaDocs(res, ds)
			res["qfp"] = []interface{}{fp, queryFingerprint(q)}
			return err
		case "ForEach":
			q := x.query(e)
			fp := queryFingerprint(q)
			visits, err := x.forEachStop(res, db, q, toInt(e["j"]))
			res["val"] = visits
			res["qfp"] = []interface{}{fp, queryFingerprint(q)}
			return err
		case "IterateDocs":
			// the consumer returns an error at its j-th call (j = 0: never); the criteria are
			// not normalised by this entry point
			q := x.query(e)
			fp := queryFingerprint(q)
			visits := make([]interface{}, 0)
			j, n := toInt(e["j"]), 0
			var kept []*document.Document
			err := db.IterateDocs(q, func(d *document.Document) error {
				n++
				if n%2 == 0 {
					visits = append(visits, x.alphaDoc(d))
					kept = append(kept, d)
				} else {
					visits = append(visits, x.alphaRead(res, d))
					kept = append(kept, nil)
				}
				if j > 0 && n >= j {
					return errConsumer
				}
				return nil
			})
			x.keptIntact(res, kept, visits)
			res["val"] = visits
			res["qfp"] = []interface{}{fp, queryFingerprint(q)}
			return err
		case "FindFirst":
			q := x.query(e)
			fp := queryFingerprint(q)
			d, err := db.FindFirst(q)
			res["val"] = optDoc(x, res, d)
			res["qfp"] = []interface{}{fp, queryFingerprint(q)}
			return err
		case "Count":
			q := x.query(e)
			fp := queryFingerprint(q)
			n, err := db.Count(q)
			res["val"] = n
			res["qfp"] = []interface{}{fp, queryFingerprint(q)}
			return err
		case "Exists":
			q := x.query(e)
			fp := queryFingerprint(q)
			v, err := db.Exists(q)
			res["val"] = v
			res["qfp"] = []interface{}{fp, queryFingerprint(q)}
			return err
		case "Derived":
			q := x.query(e)
			fp := queryFingerprint(q)
			val := E{}
			all, err := db.FindAll(q)
			if err != nil {
				return err
			}
			val["all"] = x.alphaDocs(res, all)
			n, err := db.Count(q)
			if err != nil {
				return err
			}
			val["count"] = n
			if q.GetLimit() != 0 {
				ex, err := db.Exists(q)
				if err != nil {
					return err
				}
				val["exists"] = ex
				first, err := db.FindFirst(q)
				if err != nil {
					return err
				}
				val["first"] = optDoc(x, res, first)
			} else {
				val["exists"] = false
				val["first"] = []interface{}{}
			}
			fes := make([]interface{}, 0)
			for _, j := range toList(e["js"]) {
				visits, err := x.forEachStop(res, db, q, toInt(j))
				if err != nil {
					return err
				}
				fes = append(fes, E{"j": toInt(j), "visits": visits})
			}
			val["foreach"] = fes
			byid := make([]interface{}, 0)
			for _, id := range toList(e["ids"]) {
				d, err := db.FindById(coll, str(id))
				if err != nil {
					return err
				}
				byid = append(byid, []interface{}{B(str(id)), optDoc(x, res, d)})
			}
			val["byid"] = byid
			res["val"] = val
			res["qfp"] = []interface{}{fp, queryFingerprint(q)}
			return nil
		case "Export":
			path := x.filePath(e["path"]) + "." + b.Name
			err := db.ExportCollection(coll, path)
			if err == nil {
				raw, rerr := os.ReadFile(path)
				var objs []map[string]interface{}
				if rerr == nil {
					rerr = json.Unmarshal(raw, &objs)
				}
				if rerr == nil {
					file := make([]interface{}, 0)
					for _, o := range objs {
						file = append(file, x.U.Alpha(o))
					}
					res["file"] = file
				} else {
					res["file"] = []interface{}{V{"unknown", "unreadable export"}}
				}
			}
			return err
		case "PutFile":
			path := x.filePath(e["path"]) + "." + b.Name
			content := toList(e["content"])
			switch content[0].(string) {
			case "bad":
				k := 0
				if len(content) > 1 {
					k = toInt(content[1])
				}
				return os.WriteFile(path, []byte(badFiles[k%len(badFiles)]), 0o644)
			case "gen":
				// n generated documents; the k-th repeats the id of the first one or carries a malformed id
				n, k, kind := toInt(content[1]), toInt(content[2]), content[3].(string)
				var sb strings.Builder
				sb.WriteString("[")
				for i := 0; i < n; i++ {
					if i > 0 {
						sb.WriteString(",")
					}
					id := bulkId(i)
					if i == k && kind == "dup" {
						id = bulkId(0)
					} else if i == k {
						id = "not-a-uuid"
					}
					fmt.Fprintf(&sb, `{"_id":%q,"x":%d,"s":"doc %d"}`, id, i%7, i)
				}
				sb.WriteString("]\n")
				return os.WriteFile(path, []byte(sb.String()), 0o644)
			case "docs":
				var objs []interface{}
				for _, d := range toList(content[1]) {
					objs = append(objs, x.U.Gamma(toV(d)))
				}
				if objs == nil {
					objs = []interface{}{}
				}
				raw, err := json.Marshal(objs)
				if err != nil {
					return err
				}
				return os.WriteFile(path, raw, 0o644)
			}
			return fmt.Errorf("bad content")
		case "Import":
			return db.ImportCollection(coll, x.filePath(e["path"])+"."+b.Name)
		case "CreateByQuery":
			return db.CreateCollectionByQuery(unescName(e["name"].(string)), x.query(e))
		case "Close":
			err := db.Close()
			b.open = false
			return err
		case "Reopen":
			if b.Name == "badgermem" {
				return nil
			}
			if b.open {
				if err := db.Close(); err != nil {
					return err
				}
				b.open = false
			}
			return b.reopen()
		}
		return fmt.Errorf("unknown op %s", op)
	})
	if res["harm"] == nil && !b.heldIntact() {
		res["harm"] = "strings returned by an earlier ListCollections read differently now"
		b.heldMu.Lock()
		b.held, b.heldCopy = nil, nil
		b.heldMu.Unlock()
	}
	return res
}

// Step executes e on every backend and returns the trace line.
func (x *Exec) Step(e E, audit bool) E {
	line := E{}
	for k, v := range e {
		line[k] = v
	}
	runs := make([]interface{}, 0)
	var genIds [][]byte
	if ms, ok := e["pause"]; ok { // let the wall clock advance before the call
		time.Sleep(time.Duration(toInt(ms)) * time.Millisecond)
	}
	for bi, b := range x.Backends {
		if b.dead {
			runs = append(runs, E{"be": b.Name, "res": E{"st": "timeout", "err": "timeout"}})
			continue
		}
		if b.in != nil {
			if f, ok := e["fault"].(E); ok {
				b.in.arm(f["mode"].(string), toInt(f["k"]))
			} else {
				b.in.reset()
			}
		}
		res := x.Run(b, e, genIds)
		var txlog E
		if b.in != nil {
			b.in.mu.Lock()
			txlog = E{"beginw": b.in.begins, "commit": b.in.commits, "calls": b.in.count}
			if f, ok := e["fault"].(E); ok {
				fired := 0
				if b.in.fired {
					fired = 1
				}
				line["fault"] = E{"mode": f["mode"], "k": f["k"], "fired": fired, "kind": b.in.kind}
			}
			b.in.armed = false
			b.in.mu.Unlock()
		}
		if bi == 0 {
			if ids, ok := res["ids"]; ok && res["st"] == "ok" {
				for _, id := range toList(ids) {
					genIds = append(genIds, toBytes(id))
				}
			}
		}
		run := E{"be": b.Name, "res": res}
		if txlog != nil {
			run["tx"] = txlog
		}
		if audit && b.open && !b.dead {
			run["audit"] = x.Audit(b)
		}
		runs = append(runs, run)
	}
	line["runs"] = runs
	return line
}
