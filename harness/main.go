package main

import (
	"bufio"
	"bytes"
	"encoding/json"
	"flag"
	"fmt"
	"github.com/ostafen/clover/v2/query"
	"os"
	"strings"
	"sync"

	"github.com/ostafen/clover/v2/store"
)

func scratchBase() string {
	base := os.Getenv("VERIF_SCRATCH")
	if base == "" {
		if st, err := os.Stat("/dev/shm"); err == nil && st.IsDir() {
			base = "/dev/shm"
		} else {
			base = os.TempDir()
		}
	}
	return base
}

func marshalLine(e E) []byte {
	// TLC's Json module has no null: a list that a generator left nil is the empty list
	for k, v := range e {
		if l, ok := v.([]interface{}); ok && l == nil {
			e[k] = []interface{}{}
		}
	}
	var buf bytes.Buffer
	enc := json.NewEncoder(&buf)
	enc.SetEscapeHTML(false)
	if err := enc.Encode(e); err != nil {
		panic(err)
	}
	return buf.Bytes()
}

// runTrace executes one abstract history on fresh backends and returns the trace lines.
var txLogAll = false // wrap every backend with a counting (never failing) injector: one-transaction-per-operation log

func runTrace(u *Universe, backends []string, evs []E, header E, auditWrites bool, readAudit float64, seed int64) ([][]byte, map[string]int) {
	dir, err := os.MkdirTemp(scratchBase(), "verif-trace-")
	if err != nil {
		panic(err)
	}
	defer os.RemoveAll(dir)
	x := &Exec{U: u, FileDir: dir, qcache: map[string]*query.Query{}}
	for _, name := range backends {
		var wrap func(store.Store) store.Store
		var in *injector
		if txLogAll {
			in = &injector{}
			wrap = func(s store.Store) store.Store { return &wStore{inner: s, in: in} }
		}
		b, err := NewBackend(name, dir, wrap)
		if err != nil {
			panic(err)
		}
		b.in = in
		x.Backends = append(x.Backends, b)
	}
	defer func() {
		for _, b := range x.Backends {
			b.Destroy()
		}
	}()
	stats := map[string]int{}
	var lines [][]byte
	h := E{"op": "Reset", "runs": []interface{}{E{"be": "-", "res": E{"st": "ok", "err": ""}}}}
	for k, v := range header {
		h[k] = v
	}
	lines = append(lines, marshalLine(h))
	rnd := newSplitMix(uint64(seed))
	for _, e := range evs {
		op := e["op"].(string)
		audit := false
		if a, ok := e["audit"].(bool); ok {
			audit = a
		} else if isWriteOp(op) {
			audit = auditWrites
		} else {
			audit = rnd.float() < readAudit
		}
		line := x.Step(e, audit)
		delete(line, "audit")
		lines = append(lines, marshalLine(line))
		for _, r := range toList(line["runs"]) {
			res := r.(E)["res"].(E)
			stats[op+"/"+fmt.Sprint(res["st"])+"/"+fmt.Sprint(res["err"])]++
		}
		dead := false
		for _, b := range x.Backends {
			if b.dead {
				dead = true
			}
		}
		if dead {
			break
		}
	}
	return lines, stats
}

func isWriteOp(op string) bool {
	switch op {
	case "CreateCollection", "DropCollection", "Insert", "InsertOne", "Save", "ReplaceById", "UpdateById",
		"Update", "UpdateFunc", "Delete", "DeleteById", "CreateIndex", "DropIndex", "Import", "CreateByQuery", "Reopen":
		return true
	}
	return false
}

type splitMix struct{ s uint64 }

func newSplitMix(seed uint64) *splitMix { return &splitMix{seed} }
func (r *splitMix) next() uint64 {
	r.s += 0x9e3779b97f4a7c15
	z := r.s
	z = (z ^ (z >> 30)) * 0xbf58476d1ce4e5b9
	z = (z ^ (z >> 27)) * 0x94d049bb133111eb
	return z ^ (z >> 31)
}
func (r *splitMix) float() float64 { return float64(r.next()>>11) / float64(1<<53) }

func cmdGen(args []string) {
	fs := flag.NewFlagSet("gen", flag.ExitOnError)
	profile := fs.String("profile", "general", "generator profile")
	seed := fs.Int64("seed", 1, "seed")
	n := fs.Int("n", 10, "number of traces")
	backends := fs.String("backends", "bolt", "comma-separated backends (bolt,badger,badgermem); 'rotate' picks one per trace")
	out := fs.String("out", "trace.ndjson", "output file")
	par := fs.Int("par", 8, "parallel traces")
	ops := fs.Int("ops", 0, "override events per trace")
	statsOut := fs.String("stats", "", "write generator statistics (json) here")
	txlog := fs.Bool("txlog", false, "record the store transactions of every call")
	fs.Parse(args)
	txLogAll = *txlog

	type result struct {
		lines [][]byte
		stats map[string]int
	}
	results := make([]result, *n)
	var wg sync.WaitGroup
	sem := make(chan struct{}, *par)
	for i := 0; i < *n; i++ {
		wg.Add(1)
		sem <- struct{}{}
		go func(i int) {
			defer wg.Done()
			defer func() { <-sem }()
			tseed := *seed*1000003 + int64(i)
			p := getProfile(*profile, tseed)
			if *ops > 0 {
				p.Ops = *ops
			}
			var bes []string
			if *backends == "rotate" {
				bes = []string{[]string{"bolt", "badger", "badgermem"}[int(tseed)%3]}
			} else {
				bes = strings.Split(*backends, ",")
			}
			p.NoGenIds = len(bes) > 1
			evs, u := generate(p, tseed)
			header := E{"profile": p.Name, "seed": tseed, "numTable": p.NumTable, "timeTable": p.TimeTable, "backends": strings.Join(bes, ",")}
			lines, stats := runTrace(u, bes, evs, header, true, p.ReadAudit, tseed)
			results[i] = result{lines, stats}
		}(i)
	}
	wg.Wait()

	f, err := os.Create(*out)
	if err != nil {
		panic(err)
	}
	w := bufio.NewWriterSize(f, 1<<20)
	total := map[string]int{}
	events := 0
	for _, r := range results {
		for _, l := range r.lines {
			w.Write(l)
			events++
		}
		for k, v := range r.stats {
			total[k] += v
		}
	}
	w.Flush()
	f.Close()
	if *statsOut != "" {
		b, _ := json.MarshalIndent(E{"traces": *n, "events": events, "outcomes": total, "plan_kinds": planKindCounts()}, "", " ")
		os.WriteFile(*statsOut, b, 0o644)
	}
	fmt.Printf("gen: profile=%s seed=%d traces=%d events=%d -> %s\n", *profile, *seed, *n, events, *out)
}

// cmdReplay executes abstract histories read from a file (one JSON array of events per line, or
// ndjson events separated by Reset lines) and writes the trace.
func cmdReplay(args []string) {
	fs := flag.NewFlagSet("replay", flag.ExitOnError)
	in := fs.String("in", "", "input ndjson of abstract events (Reset starts a new history)")
	out := fs.String("out", "trace.ndjson", "output")
	backends := fs.String("backends", "bolt", "backends")
	numTable := fs.String("num", "general", "number table")
	timeTable := fs.String("time", "general", "time table")
	par := fs.Int("par", 8, "parallel")
	statsOut := fs.String("stats", "", "write statistics (json) here")
	readAudit := fs.Float64("readaudit", 0, "probability of auditing after a read (events may carry an explicit audit flag)")
	rename := fs.Int("rename", -1, "lengthen the collection names of history i by (i + rename) mod 17 bytes (keys, and whatever is built from them, then have every length modulo an allocator's size classes)")
	grid := fs.Bool("grid", false, "histories come in groups of 32 copies: name lengths +0..15, numbers as given and as 0, 1, 2")
	fs.Parse(args)

	raw, err := os.ReadFile(*in)
	if err != nil {
		panic(err)
	}
	var hists [][]E
	var heads []E
	for _, ln := range bytes.Split(raw, []byte("\n")) {
		if len(bytes.TrimSpace(ln)) == 0 {
			continue
		}
		var e E
		dec := json.NewDecoder(bytes.NewReader(ln))
		if err := dec.Decode(&e); err != nil {
			panic(fmt.Sprintf("bad input line: %v: %s", err, ln))
		}
		if e["op"] == "Reset" {
			hists = append(hists, nil)
			heads = append(heads, e)
			continue
		}
		if len(hists) == 0 {
			hists = append(hists, nil)
			heads = append(heads, E{})
		}
		delete(e, "runs")
		hists[len(hists)-1] = append(hists[len(hists)-1], e)
	}
	results := make([][][]byte, len(hists))
	allStats := make([]map[string]int, len(hists))
	var wg sync.WaitGroup
	sem := make(chan struct{}, *par)
	for i := range hists {
		wg.Add(1)
		sem <- struct{}{}
		go func(i int) {
			defer wg.Done()
			defer func() { <-sem }()
			nt, tt := *numTable, *timeTable
			if s, ok := heads[i]["numTable"].(string); ok {
				nt = s
			}
			if s, ok := heads[i]["timeTable"].(string); ok {
				tt = s
			}
			bes := strings.Split(*backends, ",")
			header := E{}
			for k, v := range heads[i] {
				if k != "op" && k != "runs" {
					header[k] = v
				}
			}
			header["numTable"], header["timeTable"] = nt, tt
			if *grid {
				// every name length 0..15 bytes longer, first with the model's numbers as they are, then as 0, 1, 2
				*rename = 0
			}
			if (*rename >= 0 && !*grid && i%2 == 1) || (*grid && (i/16)%2 == 1) {
				// ... and every other history reads the model's three numbers as 0, 1, 2 instead of 1, 2, 3 (the model
				// depends on their order and representations only): the shortest encodings there are
				for _, e := range hists[i] {
					for k, v := range e {
						e[k] = remapNums(v, map[int]int{8: 6, 10: 8, 11: 10})
					}
				}
			}
			if *rename >= 0 {
				suffix := strings.Repeat("n", (i+*rename)%17)
				if *grid {
					suffix = strings.Repeat("n", i%16)
				}
				for _, e := range hists[i] {
					for _, k := range []string{"c", "name"} {
						if c, ok := e[k].(string); ok {
							e[k] = c + suffix
						}
					}
				}
			}
			lines, stats := runTrace(NewUniverse(nt, tt), bes, hists[i], header, true, *readAudit, int64(i))
			results[i] = lines
			allStats[i] = stats
		}(i)
	}
	wg.Wait()
	f, err := os.Create(*out)
	if err != nil {
		panic(err)
	}
	w := bufio.NewWriterSize(f, 1<<20)
	events := 0
	for _, r := range results {
		for _, l := range r {
			w.Write(l)
			events++
		}
	}
	w.Flush()
	f.Close()
	if *statsOut != "" {
		total := map[string]int{}
		for _, st := range allStats {
			for k, v := range st {
				total[k] += v
			}
		}
		b, _ := json.MarshalIndent(E{"traces": len(hists), "events": events, "outcomes": total, "plan_kinds": planKindCounts()}, "", " ")
		os.WriteFile(*statsOut, b, 0o644)
	}
	fmt.Printf("replay: histories=%d events=%d -> %s\n", len(hists), events, *out)
}

func main() {
	if len(os.Args) < 2 {
		fmt.Println("usage: driver gen|replay ...")
		os.Exit(2)
	}
	switch os.Args[1] {
	case "gen":
		cmdGen(os.Args[2:])
	case "replay":
		cmdReplay(os.Args[2:])
	default:
		if fn, ok := extraCommands[os.Args[1]]; ok {
			fn(os.Args[2:])
			return
		}
		fmt.Println("unknown command", os.Args[1])
		os.Exit(2)
	}
}

var extraCommands = map[string]func([]string){}

// remapNums replaces the ordinals of abstract numbers (["num", ord, rep]) throughout a decoded JSON value
func remapNums(x interface{}, m map[int]int) interface{} {
	switch v := x.(type) {
	case []interface{}:
		if len(v) == 3 {
			if tag, ok := v[0].(string); ok && tag == "num" {
				if ord, ok := v[1].(float64); ok {
					if to, has := m[int(ord)]; has {
						return []interface{}{"num", float64(to), v[2]}
					}
				}
				return v
			}
		}
		out := make([]interface{}, len(v))
		for i, e := range v {
			out[i] = remapNums(e, m)
		}
		return out
	case map[string]interface{}:
		for k, e := range v {
			v[k] = remapNums(e, m)
		}
		return v
	}
	return x
}
