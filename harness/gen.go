package main

// Seeded generators of abstract histories (DESIGN.md 5.4).  The generator keeps only loose
// bookkeeping (which names it created, which ids it inserted) to aim its choices; it is not an
// oracle and nothing it believes is ever compared with clover's answers.

import (
	"fmt"
	"math/rand"
	"strings"
)

type Profile struct {
	Name        string
	NumTable    string
	TimeTable   string
	Colls       int     // collections in play
	Ops         int     // events per trace
	MaxDocs     int     // ids in the pool
	Indexes     bool    // create / drop indexes
	Invalid     float64 // probability of deliberately invalid input
	Rich        bool    // deeply nested values
	W           map[string]int
	ReadAudit   float64 // probability of auditing after a read
	Twins       int     // >0: mirrored collections differing only in their indexes
	SortHeavy   bool
	CloseOps    bool
	IOOps       bool
	Names       []string
	Pads        bool   // documents carry a padding string of 0 .. 70 000 bytes
	PrefixNames bool   // the collections include a family of names that are prefixes of each other
	Aim         string // queries, sorts and documents favour this field
	AltIds      bool   // ids in every textual form uuid.FromString accepts, not only the canonical one
	BigInts     bool
	IdxPool     []string // fields CreateIndex chooses from
	NoGenIds    bool     // never leave the _id to clover (several backends must store identical documents)
}

var baseWeights = map[string]int{
	"Insert": 14, "InsertOne": 4, "Save": 3, "ReplaceById": 4, "UpdateById": 6, "Update": 6, "UpdateFunc": 6,
	"Delete": 3, "DeleteById": 4, "CreateIndex": 5, "DropIndex": 2, "CreateCollection": 3, "DropCollection": 1,
	"FindAll": 14, "Derived": 8, "ForEach": 4, "IterateDocs": 2, "Count": 3, "FindFirst": 2, "Exists": 1, "FindById": 3,
	"HasCollection": 1, "ListCollections": 1, "HasIndex": 1, "ListIndexes": 1,
}

func weights(over map[string]int) map[string]int {
	w := map[string]int{}
	for k, v := range baseWeights {
		w[k] = v
	}
	for k, v := range over {
		w[k] = v
	}
	return w
}

var namePool = []string{"a", "ab", "a b", "", "coll:", "d:", "i:x", "c:a", "üñí", "todos", "A", "a.b", "日本", "x-1", "tod",
	// bytes a key layout might trip over: NUL, 0xff, a bare colon, a newline, the metadata prefix itself
	"\x00", "a\x00b", "\xff", ":", "a\nb", "coll", "c:"}

var uuidPool = []string{
	"00000000-0000-4000-8000-000000000001", "00000000-0000-4000-8000-000000000002",
	"00000000-0000-4000-8000-000000000003", "0a3b1c2d-1111-4222-8333-444455556666",
	"0a3b1c2d-1111-4222-8333-444455556667", "7f000000-0000-4000-8000-000000000000",
	"80000000-0000-4000-8000-000000000000", "a0eebc99-9c0b-4ef8-bb6d-6bb9bd380a11",
	"a0eebc99-9c0b-4ef8-bb6d-6bb9bd380a12", "ffffffff-ffff-4fff-bfff-ffffffffffff",
	"fffffffe-ffff-4fff-bfff-ffffffffffff", "12345678-1234-4234-9234-123456789abc",
	"12345678-1234-4234-9234-123456789abd", "deadbeef-dead-4eef-8ead-beefdeadbeef",
	"c0ffee00-c0ff-4e00-8c0f-fee000000000", "0f0f0f0f-0f0f-4f0f-8f0f-0f0f0f0f0f0f",
}

// the other textual forms uuid.FromString accepts: they are valid ids of other lengths
var altUuidPool = []string{
	"6ba7b8109dad11d180b400c04fd430c8", "{6ba7b810-9dad-11d1-80b4-00c04fd430c9}",
	"urn:uuid:6ba7b810-9dad-11d1-80b4-00c04fd430ca", "6BA7B810-9DAD-11D1-80B4-00C04FD430CB",
	"{6ba7b8109dad11d180b400c04fd430cc}", "urn:uuid:6ba7b8109dad11d180b400c04fd430cd",
	"00000000000040008000000000000001",
	// the nil UUID and the all-ones UUID are well-formed UUIDs like any other
	"00000000-0000-0000-0000-000000000000", "ffffffff-ffff-ffff-ffff-ffffffffffff",
}

var badIds = []V{AStr("not-a-uuid"), AStr("1234"), AStr("zzzzzzzz-zzzz-zzzz-zzzz-zzzzzzzzzzzz"), ANil(), ABool(true), AArr(),
	AStr("{00000000-0000-4000-8000-000000000001"), AStr("urn:uuix:00000000-0000-4000-8000-000000000001"), AStr("00000000-0000-4000-8000-00000000000g"),
	AStr("00000000+0000-4000-8000-000000000001"), AStr("0000000000004000800000000000001")}

var strPool = []string{"", "a", "ab", "abc", "b", "ba", "\x00", "a\x00", "a\x00b", "\xff", "a\xff", "\xff\x00", "é", "hello world", "Hello", "z",
	// the byte pairs an escaping, self-delimiting key encoding has to get right
	"\xff\x01", "a\xff\x01b", "\x00\x01", "\x00\xff\x01", "a\x00\x01",
	// text that looks like a field reference is data when it is stored
	"$x", "$", "$n.a"}

type Gen struct {
	r       *rand.Rand
	U       *Universe
	P       *Profile
	colls   []string
	created map[string]bool
	live    map[string]map[string]bool
	idx     map[string]map[string]bool
	ids     []string
	stamp   int
	smallN  []int // ordinals of the "small" numbers used for selective fields
	focus   []string
	twins   []string
}

func NewGen(seed int64, p *Profile) *Gen {
	g := &Gen{r: rand.New(rand.NewSource(seed)), P: p}
	g.U = NewUniverse(p.NumTable, p.TimeTable)
	g.created = map[string]bool{}
	g.live = map[string]map[string]bool{}
	g.idx = map[string]map[string]bool{}
	names := p.Names
	if names == nil {
		names = namePool
	}
	if p.PrefixNames {
		// collections whose names are prefixes of each other, around a name drawn from the pool
		b := namePool[g.r.Intn(len(namePool))]
		names = append([]string{b, b + "b", b + "bc", b + " "}, names...)
	}
	perm := g.r.Perm(len(names))
	if p.PrefixNames {
		// the prefix family first (the first collection is the one the sweeps work on), then a draw
		perm = append([]int{0, 1, 2, 3}, g.r.Perm(len(names))...)
		seen := map[int]bool{}
		var uniq []int
		for _, i := range perm {
			if !seen[i] && (i < 4 || names[i] != names[0] && names[i] != names[1] && names[i] != names[2] && names[i] != names[3]) {
				seen[i] = true
				uniq = append(uniq, i)
			}
		}
		perm = uniq
	}
	for i := 0; i < p.Colls && i < len(names); i++ {
		g.colls = append(g.colls, escName(names[perm[i]]))
	}
	n := p.MaxDocs
	pool := append([]string{}, uuidPool...)
	if p.AltIds {
		pool = append(pool, altUuidPool...)
	}
	for i := 0; len(pool) < n; i++ {
		pool = append(pool, bulkId(i+1))
	}
	perm = g.r.Perm(len(pool))
	for i := 0; i < n; i++ {
		g.ids = append(g.ids, pool[perm[i]])
	}
	for ord, e := range g.U.nums {
		if e.i != nil && *e.i >= 0 && *e.i <= 10 {
			g.smallN = append(g.smallN, ord)
		}
	}
	if len(g.smallN) == 0 || p.NumTable != "general" {
		// boundary tables: every entry is a "usual" value
		g.smallN = nil
		for ord := range g.U.nums {
			g.smallN = append(g.smallN, ord)
		}
	}
	return g
}

func (g *Gen) pick(xs []string) string { return xs[g.r.Intn(len(xs))] }
func (g *Gen) chance(p float64) bool   { return g.r.Float64() < p }

func (g *Gen) num() V {
	ord := g.r.Intn(len(g.U.nums))
	reps := g.U.Reps(ord)
	return ANum(ord, reps[g.r.Intn(len(reps))])
}

func (g *Gen) smallNum() V {
	ord := g.smallN[g.r.Intn(len(g.smallN))]
	reps := g.U.Reps(ord)
	return ANum(ord, reps[g.r.Intn(len(reps))])
}

func (g *Gen) str() V { return AStr(strPool[g.r.Intn(len(strPool))]) }

func (g *Gen) tim() V { return ATime(g.r.Intn(len(g.U.times)), g.r.Intn(genZones)) }

// value of any type, nested to depth
func (g *Gen) value(depth int) V {
	k := g.r.Intn(20)
	switch {
	case k < 2:
		return ANil()
	case k < 7:
		return g.smallNum()
	case k < 9:
		return g.num()
	case k < 12:
		return g.str()
	case k < 13:
		return ABool(g.r.Intn(2) == 0)
	case k < 15:
		return g.tim()
	case k < 18 && depth > 0:
		n := g.r.Intn(4)
		var el []V
		for i := 0; i < n; i++ {
			el = append(el, g.value(depth-1))
		}
		return AArr(el...)
	case depth > 0:
		n := g.r.Intn(3)
		var kv []interface{}
		keys := []string{"a", "b", "ab", "", "z"}
		perm := g.r.Perm(len(keys))
		for i := 0; i < n; i++ {
			kv = append(kv, keys[perm[i]], g.value(depth-1))
		}
		return AObj(kv...)
	}
	return g.smallNum()
}

var fieldPool = []string{"x", "xy", "s", "t", "arr", "n", "k", "b", "z"}
var pathPool = []string{"x", "xy", "s", "t", "arr", "n", "n.a", "n.b", "k", "b", "z", "missing", "x.y", "_id"}

// value for a given field: mostly of the field's usual type, sometimes anything
func (g *Gen) fieldValue(f string) V {
	depth := 1
	if g.P.Rich {
		depth = 4
	}
	if g.chance(0.08) {
		return ANil() // present, explicitly nil
	}
	if g.chance(0.12) {
		return g.value(depth)
	}
	switch f {
	case "x", "n.a":
		return g.smallNum()
	case "xy":
		if g.chance(0.5) {
			return g.smallNum()
		}
		return g.str()
	case "s", "n.b":
		return g.str()
	case "t":
		return g.tim()
	case "arr":
		n := g.r.Intn(4)
		if g.P.Rich && g.chance(0.3) {
			n = 8 + g.r.Intn(5) // long enough for code that switches algorithm with the size
		}
		var el []V
		for i := 0; i < n; i++ {
			if g.P.Rich && g.chance(0.4) {
				el = append(el, g.value(depth-1))
			} else {
				el = append(el, g.smallNum())
			}
		}
		return AArr(el...)
	case "n":
		var kv []interface{}
		if g.chance(0.8) {
			kv = append(kv, "a", g.smallNum())
		}
		if g.chance(0.6) {
			kv = append(kv, "b", g.str())
		}
		if g.P.Rich && g.chance(0.5) {
			kv = append(kv, "c", g.value(depth-1))
		}
		return AObj(kv...)
	case "b":
		return ABool(g.r.Intn(2) == 0)
	case "z":
		return ANil()
	}
	return g.value(depth)
}

func (g *Gen) doc(id V) V {
	var kv []interface{}
	if id != nil {
		kv = append(kv, "_id", id)
	}
	for _, f := range fieldPool {
		p := 0.55
		if f == "x" || f == g.P.Aim {
			p = 0.85
		}
		if g.chance(p) {
			kv = append(kv, f, g.fieldValue(f))
		}
	}
	if g.P.Rich && g.chance(0.3) {
		// a list of records, each with a time: times inside objects inside arrays
		n := 1 + g.r.Intn(3)
		var el []V
		for i := 0; i < n; i++ {
			el = append(el, AObj("at", g.tim(), "n", g.smallNum()))
		}
		kv = append(kv, "ev", AArr(el...))
	}
	if g.P.Pads && g.chance(0.6) {
		kv = append(kv, "p", APad([]int{16, 100, 4000, 4096, 4200, 5000, 70000}[g.r.Intn(7)]))
	}
	if g.chance(0.06) { // a top-level field whose *name* contains a dot (not a nested path)
		kv = append(kv, g.pick([]string{"x.y", "app.version", "n.a"}), g.smallNum())
	}
	return AObj(kv...)
}

func (g *Gen) coll() string {
	if g.chance(g.P.Invalid * 0.4) {
		return g.pick(g.colls) // may or may not exist
	}
	var ex []string
	for _, c := range g.colls {
		if g.created[c] {
			ex = append(ex, c)
		}
	}
	if len(ex) == 0 {
		return g.pick(g.colls)
	}
	return g.pick(ex)
}

func (g *Gen) liveIds(c string) []string {
	var out []string
	for _, id := range g.ids {
		if g.live[c][id] {
			out = append(out, id)
		}
	}
	return out
}

func (g *Gen) freeIds(c string) []string {
	var out []string
	for _, id := range g.ids {
		if !g.live[c][id] {
			out = append(out, id)
		}
	}
	return out
}

func (g *Gen) someId(c string) string {
	l := g.liveIds(c)
	if len(l) == 0 || g.chance(0.15) {
		return g.pick(g.ids)
	}
	return g.pick(l)
}

// ---------------------------------------------------------------- criteria

func (g *Gen) operand(f string) []interface{} {
	k := g.r.Float64()
	switch {
	case k < 0.08:
		return []interface{}{"ref", B(g.pick(pathPool))}
	case k < 0.13:
		return []interface{}{"dollar", B(g.pick(pathPool))}
	}
	v := g.fieldValue(f)
	if f == "missing" || f == "x.y" || g.chance(0.1) {
		v = g.value(1)
	}
	if g.chance(0.07) {
		v = ANil() // nil bounds are a planner corner of their own
	}
	if f == "_id" {
		v = AStr(g.pick(g.ids))
	}
	// literal strings beginning with '$' denote field references in clover; never generate them as literals
	if v[0] == "str" {
		b := toBytes(v[1])
		if len(b) > 0 && b[0] == '$' {
			v = AStr("a")
		}
	}
	if v[0] == "num" && g.chance(0.5) {
		kind := numKinds[g.r.Intn(len(numKinds))]
		if _, ok := g.U.GammaKind(v, kind); ok {
			// the kind must denote the same number: pick the canonical rep accordingly
			return []interface{}{"lit", canonicalFor(g.U, v, kind), kind}
		}
	}
	return []interface{}{"lit", v}
}

// canonicalFor gives the abstract value a literal of Go kind `kind` normalises to.
func canonicalFor(u *Universe, v V, kind string) V {
	ord := toInt(v[1])
	switch kind[0] {
	case 'i':
		return ANum(ord, "i")
	case 'u':
		return ANum(ord, "u")
	}
	return ANum(ord, "f")
}

// leafField prefers the fields that are indexed in the collection the query is aimed at, so that
// the planner's index paths are exercised.
func (g *Gen) leafField() string {
	if g.P.Aim != "" && g.chance(0.7) {
		return g.P.Aim
	}
	if len(g.focus) > 0 && g.chance(0.65) {
		return g.pick(g.focus)
	}
	return g.pick(pathPool)
}

func (g *Gen) setFocus(c string) {
	g.focus = nil
	var fs []string
	for f, ok := range g.idx[c] {
		if ok {
			fs = append(fs, f)
		}
	}
	sortStrings(fs)
	g.focus = fs
}

func (g *Gen) leaf() []interface{} {
	f := g.leafField()
	k := g.r.Intn(100)
	switch {
	case k < 6:
		return []interface{}{"un", "exists", B(f), []interface{}{"none"}}
	case k < 8: // the derived builders
		name := []string{"notexists", "isnil", "istrue", "isfalse", "isnilornotexists"}[g.r.Intn(5)]
		if name == "istrue" || name == "isfalse" {
			f = g.pick([]string{"b", f})
		}
		return []interface{}{"sugar", name, B(f), []interface{}{"none"}}
	case k < 12:
		return []interface{}{"sugar", "neq", B(f), g.operand(f)}
	case k < 30:
		return []interface{}{"un", "eq", B(f), g.operand(f)}
	case k < 62:
		op := []string{"gt", "gte", "lt", "lte"}[g.r.Intn(4)]
		return []interface{}{"un", op, B(f), g.operand(f)}
	case k < 74:
		n := g.r.Intn(4)
		list := make([]interface{}, 0)
		for i := 0; i < n; i++ {
			list = append(list, g.operand(f))
		}
		// listed values may coincide: the same literal twice, the same number in another representation (a
		// document that holds it is still selected once)
		for len(list) > 0 && g.chance(0.35) {
			e := toList(list[g.r.Intn(len(list))])
			if e[0] == "lit" && len(e) == 2 && toV(e[1])[0] == "num" && g.chance(0.7) {
				v := toV(e[1])
				reps := g.U.Reps(toInt(v[1]))
				e = []interface{}{"lit", ANum(toInt(v[1]), reps[g.r.Intn(len(reps))])}
			}
			list = append(list, e)
		}
		return []interface{}{"un", "in", B(f), []interface{}{"list", list}}
	case k < 84:
		ff := f
		if g.chance(0.7) {
			ff = "arr"
		}
		n := g.r.Intn(3)
		list := make([]interface{}, 0)
		for i := 0; i < n; i++ {
			if g.chance(0.8) {
				list = append(list, []interface{}{"lit", g.smallNum()})
			} else {
				list = append(list, g.operand(ff))
			}
		}
		// listed elements may coincide: repeated literals, the same number in another representation
		for len(list) > 0 && g.chance(0.3) {
			e := toList(list[g.r.Intn(len(list))])
			if e[0] == "lit" && toV(e[1])[0] == "num" && g.chance(0.5) {
				v := toV(e[1])
				reps := g.U.Reps(toInt(v[1]))
				e = []interface{}{"lit", ANum(toInt(v[1]), reps[g.r.Intn(len(reps))])}
			}
			list = append(list, e)
		}
		return []interface{}{"un", "contains", B(ff), []interface{}{"list", list}}
	case k < 94:
		ff := f
		if g.chance(0.7) {
			ff = []string{"s", "xy", "n.b"}[g.r.Intn(3)]
		}
		kind := []string{"any", "exact", "prefix", "suffix", "contains"}[g.r.Intn(5)]
		lit := []string{"a", "ab", "b", "", "hello", "o w", "A", "."}[g.r.Intn(8)]
		return []interface{}{"un", "like", B(ff), []interface{}{"pat", kind, B(lit)}}
	default:
		name := []string{"true", "false", "has", "isnum", "isstr"}[g.r.Intn(5)]
		return []interface{}{"un", "fn", B(""), []interface{}{"fn", name, B(f)}}
	}
}

func (g *Gen) crit(depth int) []interface{} {
	if depth == 0 || g.chance(0.45) {
		c := g.leaf()
		if g.chance(0.15) {
			c = []interface{}{"not", c}
			for g.chance(0.35) {
				c = []interface{}{"not", c}
			}
		}
		return c
	}
	k := g.r.Intn(10)
	switch {
	case k < 2:
		// two or three bounds on the same (preferably indexed) field: the planner intersects their ranges
		f := g.leafField()
		cmp := func() []interface{} {
			op := []string{"eq", "gt", "gte", "lt", "lte", "lt", "gt"}[g.r.Intn(7)]
			o := g.operand(f)
			if g.chance(0.15) {
				o = []interface{}{"lit", ANil()}
			}
			c := []interface{}{"un", op, B(f), o}
			if g.chance(0.2) { // membership tests among the bounds, possibly negated
				n := 1 + g.r.Intn(3)
				list := make([]interface{}, 0)
				for i := 0; i < n; i++ {
					list = append(list, g.operand(f))
				}
				c = []interface{}{"un", "in", B(f), []interface{}{"list", list}}
				if g.chance(0.5) {
					return []interface{}{"not", c}
				}
				return c
			}
			if g.chance(0.15) {
				return []interface{}{"not", c}
			}
			return c
		}
		c := []interface{}{"and", cmp(), cmp()}
		if g.chance(0.3) {
			c = []interface{}{"and", c, cmp()}
		}
		if g.chance(0.3) {
			c = []interface{}{"and", g.crit(depth - 1), c}
		}
		return c
	case k < 4:
		return []interface{}{"and", g.crit(depth - 1), g.crit(depth - 1)}
	case k < 8:
		return []interface{}{"or", g.crit(depth - 1), g.crit(depth - 1)}
	default:
		// chains of negations: the planner only pushes some of them down
		c := []interface{}{"not", g.crit(depth - 1)}
		for g.chance(0.4) {
			c = []interface{}{"not", c}
		}
		return c
	}
}

var dirPool = []int{-3, -1, 0, 1, 5}

func (g *Gen) sortOpts() []interface{} {
	if g.chance(0.12) {
		return []interface{}{} // Sort(): by _id
	}
	n := 1
	if g.chance(0.3) {
		n = 2
	}
	opts := make([]interface{}, 0)
	for i := 0; i < n; i++ {
		opts = append(opts, []interface{}{B(g.leafField()), dirPool[g.r.Intn(len(dirPool))]})
	}
	return opts
}

// builders of a read query
func (g *Gen) query(total bool) []interface{} {
	bs := make([]interface{}, 0)
	if g.chance(0.8) {
		if g.chance(0.06) {
			name := []string{"true", "false", "has", "isnum", "isstr"}[g.r.Intn(5)]
			bs = append(bs, []interface{}{"match", name, B(g.pick(pathPool))})
		} else {
			bs = append(bs, []interface{}{"where", g.crit(3)})
		}
	}
	sortP := 0.35
	if g.P.SortHeavy {
		sortP = 0.85
	}
	sorted := false
	if g.chance(sortP) {
		opts := g.sortOpts()
		if total && len(opts) > 0 {
			opts = append(opts, []interface{}{B("_id"), dirPool[g.r.Intn(len(dirPool))]})
		}
		bs = append(bs, []interface{}{"sort", opts})
		sorted = true
	}
	winP := 0.3
	if g.P.SortHeavy {
		winP = 0.6
	}
	if g.chance(winP) && (!total || sorted) {
		if g.chance(0.7) {
			bs = append(bs, []interface{}{"skip", []int{-1, 0, 1, 2, 3, 5, 50, 0, 1, 2, hugeBase + 1 + g.r.Intn(len(hugeArgs)), -3, -1000}[g.r.Intn(13)]})
		}
		if g.chance(0.7) {
			// any negative limit means no limit, not only the -1 a fresh query carries
			bs = append(bs, []interface{}{"limit", []int{-1, 0, 1, 2, 3, 10, 1, 2, hugeBase + 1 + g.r.Intn(len(hugeArgs)), hugeBase + 1 + g.r.Intn(len(hugeArgs)), -2, -7, -1000000}[g.r.Intn(13)]})
		}
		if g.chance(0.1) { // a later negative skip must be ignored
			bs = append(bs, []interface{}{"skip", -2})
		}
		if g.chance(0.12) { // a later builder call replaces the earlier one: Skip(0) means no skip again
			bs = append(bs, []interface{}{"skip", 0})
		}
		if g.chance(0.08) {
			bs = append(bs, []interface{}{"limit", []int{-1, 2, 0}[g.r.Intn(3)]})
		}
	}
	return bs
}

// ---------------------------------------------------------------- updaters

// relatedPath: an indexed field itself, one of its sub-paths, or its parent - writes there must
// keep the index exact
func (g *Gen) relatedPath(def string) string {
	if len(g.focus) == 0 || g.chance(0.45) {
		return def
	}
	f := g.pick(g.focus)
	if f == "_id" || f == "missing" {
		return def
	}
	switch g.r.Intn(4) {
	case 0:
		return f + "." + g.pick([]string{"a", "b", "q"})
	case 1:
		for i := len(f) - 1; i > 0; i-- {
			if f[i] == '.' {
				return f[:i]
			}
		}
	}
	return f
}

// idRewrite: the updater tries to change _id (or something below it)
func idRewrite(u []interface{}) bool {
	if u[0] == "idform" {
		return true
	}
	if len(u) > 1 {
		if p, ok := u[1].([]int); ok {
			return strings.HasPrefix(string(intsToBytes(p)), "_id")
		}
	}
	return false
}

func intsToBytes(p []int) []byte {
	b := make([]byte, len(p))
	for i, x := range p {
		b[i] = byte(x)
	}
	return b
}

func (g *Gen) updater(bulk bool) []interface{} {
	k := g.r.Intn(100)
	if g.P.Name == "ids" && g.chance(0.2) {
		k = 99 // the ids profile aims at _id rewrites
	}
	path := g.relatedPath(g.pick([]string{"x", "xy", "s", "n.a", "n", "k", "arr", "new", "t", "x.y"}))
	switch {
	case k < 30:
		return []interface{}{"set", B(path), g.fieldValue(path)}
	case k < 50:
		return []interface{}{"setInPlace", B(path), g.fieldValue(path)}
	case k < 60:
		return []interface{}{"unset", B(g.pick(fieldPool))}
	case k < 68:
		return []interface{}{"id"}
	case k < 80:
		return []interface{}{"append", B("arr"), g.smallNum()}
	case k < 88:
		return []interface{}{"appendInPlace", B("arr"), g.smallNum()}
	case k < 94 && (bulk || g.chance(0.4)): // the updater of UpdateById may return nil as well
		return []interface{}{"nil"}
	case g.chance(g.P.Invalid):
		// an update producing an invalid document: rewrites _id / breaks _expiresAt
		switch g.r.Intn(4) {
		case 0: // a path *through* _id turns it into a sub-document
			kind := "set"
			if g.chance(0.5) {
				kind = "setInPlace"
			}
			return []interface{}{kind, B("_id.rev"), g.smallNum()}
		case 1: // the same UUID spelled differently is a different _id
			return []interface{}{"idform", g.pick([]string{"upper", "braces", "urn", "bare", "bare"})}
		case 2:
			return []interface{}{"set", B("_id"), AStr(g.pick(g.ids))}
		}
		return []interface{}{"setInPlace", B("_id"), AStr(g.pick(g.ids))}
	}
	return []interface{}{"set", B(path), g.fieldValue(path)}
}

func (g *Gen) updateMap() []interface{} {
	g.stamp++
	pairs := []interface{}{[]interface{}{B("u"), AStr(fmt.Sprintf("op%d", g.stamp))}}
	paths := []string{"x", "xy", "s", "n.a", "k", "arr", "new"}
	perm := g.r.Perm(len(paths))
	n := 1 + g.r.Intn(2)
	used := []string{"u"}
	for i := 0; i < n; i++ {
		p := g.relatedPath(paths[perm[i]])
		// the keys of one update map must not overlap (Go map iteration order would decide)
		clash := false
		for _, q := range used {
			if p == q || strings.HasPrefix(p, q+".") || strings.HasPrefix(q, p+".") {
				clash = true
			}
		}
		if clash {
			continue
		}
		used = append(used, p)
		pairs = append(pairs, []interface{}{B(p), g.fieldValue(p)})
	}
	return []interface{}{"setall", pairs}
}

// ---------------------------------------------------------------- events

func (g *Gen) noteInsert(c string, ids ...string) {
	if g.live[c] == nil {
		g.live[c] = map[string]bool{}
	}
	for _, id := range ids {
		g.live[c][id] = true
	}
}

func (g *Gen) event(op string) E {
	c := g.coll()
	g.setFocus(c)
	switch op {
	case "CreateCollection":
		var cands []string
		for _, n := range g.colls {
			if !g.created[n] || g.chance(g.P.Invalid) {
				cands = append(cands, n)
			}
		}
		if len(cands) == 0 {
			cands = g.colls
		}
		c = g.pick(cands)
		g.created[c] = true
		if g.live[c] == nil {
			g.live[c] = map[string]bool{}
			g.idx[c] = map[string]bool{}
		}
		return E{"op": op, "c": c}
	case "DropCollection":
		if g.created[c] {
			g.created[c] = false
			g.live[c] = map[string]bool{}
			g.idx[c] = map[string]bool{}
		}
		return E{"op": op, "c": c}
	case "HasCollection":
		return E{"op": op, "c": g.pick(g.colls)}
	case "ListCollections":
		return E{"op": op}
	case "Insert", "InsertOne", "Save":
		n := 1
		if op == "Insert" {
			n = []int{0, 1, 1, 2, 3, 4}[g.r.Intn(6)]
			if g.P.MaxDocs > 20 {
				n = 4 + g.r.Intn(8)
			}
		}
		docs := make([]interface{}, 0)
		free := g.freeIds(c)
		g.r.Shuffle(len(free), func(i, j int) { free[i], free[j] = free[j], free[i] })
		invalid := false
		var used []string
		for i := 0; i < n; i++ {
			var id V
			switch {
			case g.chance(g.P.Invalid * 0.5): // duplicate of a stored id or of an earlier one in the batch
				if len(used) > 0 && g.chance(0.4) {
					id = AStr(g.pick(used))
				} else {
					id = AStr(g.someId(c))
				}
				invalid = true
			case g.chance(g.P.Invalid * 0.3):
				id = badIds[g.r.Intn(len(badIds))]
				if g.chance(0.2) {
					id = g.smallNum()
				}
				invalid = true
			case (g.chance(0.15) || len(free) == 0) && !g.P.NoGenIds:
				if g.chance(0.3) {
					id = AStr("") // empty id: generated
				} else {
					id = nil // no _id: generated
				}
			case len(free) == 0:
				id = AStr(g.someId(c)) // no free id left: a duplicate
				invalid = true
			default:
				id = AStr(free[0])
				used = append(used, free[0])
				free = free[1:]
			}
			if op == "Save" && g.chance(0.6) && len(g.liveIds(c)) > 0 {
				id = AStr(g.someId(c))
			}
			d := g.doc(id)
			if g.chance(g.P.Invalid * 0.1) {
				d = ObjSet(d, "_expiresAt", AStr("soon"))
				invalid = true
			}
			docs = append(docs, d)
		}
		if !invalid {
			g.noteInsert(c, used...)
		}
		return E{"op": op, "c": c, "docs": docs}
	case "ReplaceById":
		id := g.someId(c)
		did := id
		if g.chance(g.P.Invalid * 0.3) {
			did = g.pick(g.ids)
			if g.chance(0.4) {
				did = idForm(id, g.pick([]string{"upper", "braces", "urn"}))
			}
		}
		return E{"op": op, "c": c, "id": B(id), "docs": []interface{}{g.doc(AStr(did))}}
	case "UpdateById":
		upd := g.updater(false)
		id := g.someId(c)
		if live := g.liveIds(c); idRewrite(upd) && len(live) > 0 {
			id = g.pick(live) // an attempt to rewrite _id is aimed at a document that exists
		}
		return E{"op": op, "c": c, "id": B(id), "upd": upd}
	case "Update":
		return E{"op": op, "c": c, "q": g.query(true), "upd": g.updateMap()}
	case "UpdateFunc":
		upd := g.updater(true)
		q := g.query(true)
		if idRewrite(upd) && g.chance(0.7) {
			q = []interface{}{} // ... at every document
		}
		return E{"op": op, "c": c, "q": q, "upd": upd}
	case "Delete":
		return E{"op": op, "c": c, "q": g.query(true)}
	case "DeleteById":
		id := g.someId(c)
		if g.live[c] != nil {
			delete(g.live[c], id)
		}
		return E{"op": op, "c": c, "id": B(id)}
	case "CreateIndex":
		pool := []string{"x", "xy", "s", "n.a", "n", "n", "t", "k", "arr", "arr", "b", "z", "missing", "_id"}
		if g.P.IdxPool != nil {
			pool = g.P.IdxPool
		}
		f := g.pick(pool)
		if g.idx[c] == nil {
			g.idx[c] = map[string]bool{}
		}
		g.idx[c][f] = true
		return E{"op": op, "c": c, "f": B(f)}
	case "DropIndex":
		var have []string
		for f, ok := range g.idx[c] {
			if ok {
				have = append(have, f)
			}
		}
		f := g.pick([]string{"x", "xy", "n", "n.a", "s"})
		if len(have) > 0 && !g.chance(g.P.Invalid) {
			// deterministic choice despite map iteration order
			min := have[0]
			for _, h := range have {
				if h < min {
					min = h
				}
			}
			f = min
			if g.chance(0.5) {
				for _, h := range have {
					if h > f {
						f = h
					}
				}
			}
		}
		if g.idx[c] != nil {
			delete(g.idx[c], f)
		}
		return E{"op": op, "c": c, "f": B(f)}
	case "HasIndex":
		return E{"op": op, "c": c, "f": B(g.pick([]string{"x", "xy", "n", "n.a", "s", "nope"}))}
	case "ListIndexes":
		return E{"op": op, "c": c}
	case "FindById":
		return E{"op": op, "c": c, "id": B(g.someId(c))}
	case "FindAll", "Count", "Exists", "FindFirst":
		q := g.query(false)
		if op == "Exists" || op == "FindFirst" {
			q = dropLimit0(q)
		}
		return E{"op": op, "c": c, "q": q}
	case "ForEach", "IterateDocs":
		return E{"op": op, "c": c, "q": g.query(false), "j": []int{0, 1, 2, 3, 100}[g.r.Intn(5)]}
	case "Derived":
		ids := make([]interface{}, 0)
		for _, id := range g.ids {
			ids = append(ids, B(id))
		}
		return E{"op": op, "c": c, "q": g.query(false), "js": []interface{}{0, 1, 2, 4}, "ids": ids}
	case "Close":
		return E{"op": op}
	case "Reopen":
		return E{"op": op}
	}
	panic("gen: unknown op " + op)
}

// FindFirst and Exists replace the limit by 1; C09 excludes Limit(0) for them
func dropLimit0(q []interface{}) []interface{} {
	out := make([]interface{}, 0)
	for _, b := range q {
		bl := toList(b)
		if bl[0].(string) == "limit" && toInt(bl[1]) == 0 {
			continue
		}
		out = append(out, b)
	}
	return out
}

func (g *Gen) weightedOp() string {
	total := 0
	keys := make([]string, 0, len(g.P.W))
	for k := range g.P.W {
		keys = append(keys, k)
	}
	sortStrings(keys)
	for _, k := range keys {
		total += g.P.W[k]
	}
	n := g.r.Intn(total)
	for _, k := range keys {
		n -= g.P.W[k]
		if n < 0 {
			return k
		}
	}
	return keys[0]
}

func sortStrings(s []string) {
	for i := 1; i < len(s); i++ {
		for j := i; j > 0 && s[j] < s[j-1]; j-- {
			s[j], s[j-1] = s[j-1], s[j]
		}
	}
}

// indexCatalogSweep: three to five indexes on one collection created in a random order, one of them
// dropped (any position), then every catalog question and every catalog operation on each field.
func (g *Gen) indexCatalogSweep() []E {
	c := g.colls[0]
	var evs []E
	fields := []string{"x", "xy", "n", "n.a", "s", "k"}
	g.r.Shuffle(len(fields), func(i, j int) { fields[i], fields[j] = fields[j], fields[i] })
	fields = fields[:3+g.r.Intn(3)]
	if g.chance(0.5) { // names are strings of bytes: two that are not UTF-8 and differ in one such byte
		fields = append(fields, "k\xff", "k\xfe")
	}
	for _, f := range fields {
		if !g.idx[c][f] {
			g.idx[c][f] = true
			evs = append(evs, E{"op": "CreateIndex", "c": c, "f": B(f)})
		}
	}
	evs = append(evs, g.event("Insert"))
	drop := fields[g.r.Intn(len(fields))]
	delete(g.idx[c], drop)
	evs = append(evs, E{"op": "DropIndex", "c": c, "f": B(drop)}, E{"op": "ListIndexes", "c": c})
	for _, f := range fields {
		evs = append(evs, E{"op": "HasIndex", "c": c, "f": B(f)})
	}
	for _, f := range fields {
		if g.chance(0.5) {
			evs = append(evs, E{"op": "CreateIndex", "c": c, "f": B(f)}) // ErrIndexExist unless it is the dropped one
			g.idx[c][f] = true
		} else {
			evs = append(evs, E{"op": "DropIndex", "c": c, "f": B(f)}) // ErrIndexNotExist for the dropped one
			delete(g.idx[c], f)
		}
		evs = append(evs, E{"op": "ListIndexes", "c": c})
	}
	// one bulk update that changes, document by document, a different subset of the indexed fields
	if len(fields) >= 2 {
		v1, v2 := g.smallNum(), g.smallNum()
		var docs []interface{}
		free := g.freeIds(c)
		for i := 0; i < 3 && i < len(free); i++ {
			d := AObj("_id", AStr(free[i]), fields[0], v1, fields[1], v2)
			switch i {
			case 0:
				d = ObjSet(d, fields[1], g.smallNum()) // only the second field will change
			case 1:
				d = ObjSet(d, fields[0], g.smallNum()) // only the first
			}
			docs = append(docs, d)
		}
		if len(docs) > 0 && !strings.Contains(fields[0]+fields[1], ".") && fields[0] != "n" && fields[1] != "n" {
			evs = append(evs, E{"op": "Insert", "c": c, "docs": docs})
			g.noteInsert(c, free[:len(docs)]...)
			g.stamp++
			evs = append(evs, E{"op": "Update", "c": c, "q": []interface{}{}, "upd": []interface{}{"setall", []interface{}{
				[]interface{}{B("u"), AStr(fmt.Sprintf("op%d", g.stamp))}, []interface{}{B(fields[0]), v1}, []interface{}{B(fields[1]), v2}}}})
		}
	}
	g.setFocus(c)
	// filter through one index, sort on the field of another
	var live []string
	for _, f := range fields {
		if g.idx[c][f] {
			live = append(live, f)
		}
	}
	for i := 0; i+1 < len(live) && i < 2; i++ {
		for _, dir := range []int{1, -1} {
			bound := g.fieldValue(live[i])
			for k := 0; k < 5 && (bound[0] == "nil" || bound[0] == "obj" || bound[0] == "arr"); k++ {
				bound = g.fieldValue(live[i])
			}
			op := "gte"
			if g.chance(0.4) {
				op = "lte"
			}
			q := []interface{}{[]interface{}{"where", []interface{}{"un", op, B(live[i]), []interface{}{"lit", bound}}},
				[]interface{}{"sort", []interface{}{[]interface{}{B(live[i+1]), dir}}}}
			if g.chance(0.5) {
				q = append(q, []interface{}{"skip", 1}, []interface{}{"limit", 2})
			}
			evs = append(evs, E{"op": "FindAll", "c": c, "q": q})
		}
	}
	// every surviving index visited backwards and forwards, without bounds
	for _, f := range fields {
		for _, dir := range []int{-1, 1} {
			evs = append(evs, E{"op": "FindAll", "c": c, "q": []interface{}{[]interface{}{"sort", []interface{}{[]interface{}{B(f), dir}}}}})
		}
	}
	// the dotted pair (n, n.a): a write below n.a through an updater that works in place, by id and in bulk, must
	// move the entry of the index on n as well (the value of n is the object the updater has just changed)
	if free := g.freeIds(c); len(free) >= 2 && g.chance(0.7) {
		for _, f := range []string{"n", "n.a"} {
			if !g.idx[c][f] {
				g.idx[c][f] = true
				evs = append(evs, E{"op": "CreateIndex", "c": c, "f": B(f)})
			}
		}
		v1, v2, v3 := ANum(g.smallN[1], "i"), ANum(g.smallN[3], "i"), ANum(g.smallN[5%len(g.smallN)], "i")
		evs = append(evs, E{"op": "Insert", "c": c, "docs": []interface{}{
			AObj("_id", AStr(free[0]), "n", AObj("a", v1, "b", v1)), AObj("_id", AStr(free[1]), "n", AObj("a", v2))}})
		g.noteInsert(c, free[0], free[1])
		evs = append(evs, E{"op": "UpdateById", "c": c, "id": B(free[0]), "upd": []interface{}{"setInPlace", B("n.a"), v3}, "audit": true})
		evs = append(evs, E{"op": "UpdateFunc", "c": c, "q": []interface{}{[]interface{}{"where", []interface{}{"un", "eq", B("n.a"), []interface{}{"lit", v2}}}},
			"upd": []interface{}{"setInPlace", B("n.a"), v1}, "audit": true})
		for _, dir := range []int{1, -1} {
			evs = append(evs, E{"op": "FindAll", "c": c, "q": []interface{}{[]interface{}{"sort", []interface{}{[]interface{}{B("n"), dir}}}}})
		}
		evs = append(evs, E{"op": "Count", "c": c, "q": []interface{}{[]interface{}{"where", []interface{}{"un", "gte", B("n"), []interface{}{"lit", AObj("a", ANum(g.smallN[0], "i"))}}}}})
	}
	evs = append(evs, g.event("FindAll"), g.event("Derived"))
	return evs
}

// containerSweep: an index on an object-valued (or array-valued) field whose content is then changed
// in place, below the indexed path, by point and bulk updaters; afterwards the field is queried
// through the index with whole-container operands.
func (g *Gen) containerSweep() []E {
	c := g.colls[0]
	f := g.pick([]string{"n", "n", "arr"})
	var evs []E
	if !g.idx[c][f] {
		g.idx[c][f] = true
		evs = append(evs, E{"op": "CreateIndex", "c": c, "f": B(f)})
	}
	evs = append(evs, g.event("Insert"), g.event("Insert"))
	ids := g.liveIds(c)
	sub := map[string][]string{"n": {"n.a", "n.b", "n.q"}, "arr": {"arr"}}[f]
	for i := 0; i < 2 && len(ids) > 0; i++ {
		p := g.pick(sub)
		kind := "setInPlace"
		if f == "arr" {
			kind = "appendInPlace"
		}
		evs = append(evs, E{"op": "UpdateById", "c": c, "id": B(g.pick(ids)), "upd": []interface{}{kind, B(p), g.fieldValue(p)}})
	}
	p := g.pick(sub)
	kind := "setInPlace"
	if f == "arr" {
		kind = "appendInPlace"
	}
	evs = append(evs, E{"op": "UpdateFunc", "c": c, "q": []interface{}{}, "upd": []interface{}{kind, B(p), g.smallNum()}})
	g.setFocus(c)
	for _, op := range []string{"gte", "lte", "eq"} {
		evs = append(evs, E{"op": "FindAll", "c": c, "q": []interface{}{[]interface{}{"where", []interface{}{"un", op, B(f), []interface{}{"lit", g.fieldValue(f)}}}}})
	}
	evs = append(evs, E{"op": "FindAll", "c": c, "q": []interface{}{[]interface{}{"where", []interface{}{"un", "gte", B(f), []interface{}{"lit", ANil()}}}, []interface{}{"sort", []interface{}{[]interface{}{B(f), 1}}}}})
	return evs
}

// lifecycleSweep: an index (or the whole collection) is dropped, the indexed field is rewritten on the
// same ids while nothing indexes it, and the index (the collection) comes back: whatever the first
// life left in the key space would now show up as duplicates or misplaced documents.
func (g *Gen) lifecycleSweep() []E {
	c := g.colls[0]
	var evs []E
	f := g.pick([]string{"x", "x", "xy", "k"})
	if !g.idx[c][f] {
		g.idx[c][f] = true
		evs = append(evs, E{"op": "CreateIndex", "c": c, "f": B(f)})
	}
	free := g.freeIds(c)
	if len(free) < 3 {
		return evs
	}
	ids := free[:3]
	mk := func(shift int) []interface{} {
		var docs []interface{}
		for i, id := range ids {
			docs = append(docs, AObj("_id", AStr(id), f, ANum(g.smallN[(i+shift)%len(g.smallN)], "i")))
		}
		return docs
	}
	evs = append(evs, E{"op": "Insert", "c": c, "docs": mk(0)})
	g.noteInsert(c, ids...)
	if g.chance(0.5) {
		// the index goes and comes back
		evs = append(evs, E{"op": "DropIndex", "c": c, "f": B(f)})
		evs = append(evs, E{"op": "UpdateFunc", "c": c, "q": []interface{}{}, "upd": []interface{}{"set", B(f), ANum(g.smallN[len(g.smallN)-1], "i")}})
		evs = append(evs, E{"op": "CreateIndex", "c": c, "f": B(f)})
	} else {
		// the collection goes and comes back with the same ids
		evs = append(evs, E{"op": "DropCollection", "c": c}, E{"op": "CreateCollection", "c": c})
		g.live[c] = map[string]bool{}
		g.idx[c] = map[string]bool{}
		evs = append(evs, E{"op": "Insert", "c": c, "docs": mk(3)})
		g.noteInsert(c, ids...)
		if g.chance(0.5) {
			// the new collection has no index: what the handle remembers of the old one's must not answer for it
			for _, dir := range []int{1, -1} {
				evs = append(evs, E{"op": "FindAll", "c": c, "q": []interface{}{[]interface{}{"sort", []interface{}{[]interface{}{B(f), dir}}}}})
			}
			evs = append(evs, E{"op": "Count", "c": c, "q": []interface{}{[]interface{}{"where", []interface{}{"un", "gte", B(f), []interface{}{"lit", ANum(g.smallN[0], "i")}}}}},
				E{"op": "ListIndexes", "c": c},
				E{"op": "Update", "c": c, "q": []interface{}{[]interface{}{"where", []interface{}{"un", "lte", B(f), []interface{}{"lit", ANum(g.smallN[len(g.smallN)-1], "i")}}}}, "upd": g.updateMap(), "audit": true})
		}
		evs = append(evs, E{"op": "CreateIndex", "c": c, "f": B(f)})
		g.idx[c][f] = true
	}
	g.setFocus(c)
	for _, dir := range []int{1, -1} {
		evs = append(evs, E{"op": "FindAll", "c": c, "q": []interface{}{[]interface{}{"sort", []interface{}{[]interface{}{B(f), dir}}}}})
	}
	evs = append(evs, E{"op": "FindAll", "c": c, "q": []interface{}{[]interface{}{"where", []interface{}{"un", "gte", B(f), []interface{}{"lit", ANum(g.smallN[0], "i")}}}}})
	evs = append(evs, E{"op": "Count", "c": c, "q": []interface{}{[]interface{}{"where", []interface{}{"un", "lte", B(f), []interface{}{"lit", ANum(g.smallN[len(g.smallN)-1], "i")}}}}})
	return evs
}

// missingSweep: every kind of operation on a collection that does not exist (never created, or
// dropped a moment ago), the queries with every kind of window - including the empty one.
func (g *Gen) missingSweep() []E {
	var evs []E
	name := "never-created"
	for _, c := range g.colls {
		if g.created[c] && g.chance(0.5) {
			g.created[c] = false
			g.live[c] = map[string]bool{}
			g.idx[c] = map[string]bool{}
			evs = append(evs, E{"op": "DropCollection", "c": c})
			name = c
			break
		}
	}
	lim := func(n int) []interface{} { return []interface{}{"limit", n} }
	where := []interface{}{"where", []interface{}{"un", "gte", B("x"), []interface{}{"lit", g.smallNum()}}}
	qs := [][]interface{}{{}, {lim(0)}, {lim(1)}, {[]interface{}{"skip", 1}}, {where, lim(0)}, {where},
		{[]interface{}{"sort", []interface{}{[]interface{}{B("x"), 1}}}, lim(0)}}
	for _, op := range []string{"FindAll", "Count", "ForEach", "IterateDocs", "Exists", "FindFirst", "Delete"} {
		for _, q := range qs {
			if (op == "Exists" || op == "FindFirst") && len(q) > 0 && fmt.Sprint(q[len(q)-1]) == fmt.Sprint(lim(0)) {
				continue
			}
			if op == "Delete" && len(q) > 0 && !g.chance(0.4) {
				continue
			}
			e := E{"op": op, "c": name, "q": q}
			if op == "ForEach" || op == "IterateDocs" {
				e["j"] = 0
			}
			evs = append(evs, e)
		}
	}
	id := g.pick(g.ids)
	evs = append(evs,
		E{"op": "FindById", "c": name, "id": B(id)}, E{"op": "DeleteById", "c": name, "id": B(id)},
		E{"op": "UpdateById", "c": name, "id": B(id), "upd": []interface{}{"id"}},
		E{"op": "ReplaceById", "c": name, "id": B(id), "docs": []interface{}{g.doc(AStr(id))}},
		E{"op": "Insert", "c": name, "docs": []interface{}{g.doc(AStr(id))}},
		E{"op": "Update", "c": name, "q": []interface{}{lim(0)}, "upd": g.updateMap()},
		E{"op": "UpdateFunc", "c": name, "q": []interface{}{}, "upd": []interface{}{"id"}},
		E{"op": "HasIndex", "c": name, "f": B("x")}, E{"op": "ListIndexes", "c": name},
		E{"op": "CreateIndex", "c": name, "f": B("x")}, E{"op": "DropIndex", "c": name, "f": B("x")},
		E{"op": "Export", "c": name, "path": "missing.json"},
		E{"op": "CreateByQuery", "name": "byq-from-missing", "c": name, "q": []interface{}{lim(0)}, "audit": true},
		E{"op": "HasCollection", "c": name}, E{"op": "ListCollections", "audit": true})
	return evs
}

// History generates one abstract history.
func (g *Gen) History() []E {
	var evs []E
	// opening: create collections, possibly an index before the data, a first batch
	for i, c := range g.colls {
		if i == 0 || g.chance(0.7) {
			g.created[c] = true
			g.live[c] = map[string]bool{}
			g.idx[c] = map[string]bool{}
			evs = append(evs, E{"op": "CreateCollection", "c": c})
			if g.P.Indexes && g.chance(0.5) {
				pool := []string{"x", "xy", "n.a", "s"}
				if g.P.IdxPool != nil {
					pool = g.P.IdxPool
				}
				f := g.pick(pool)
				g.idx[c][f] = true
				evs = append(evs, E{"op": "CreateIndex", "c": c, "f": B(f)})
			}
		}
	}
	if g.P.Name == "indexcat" && g.chance(0.5) {
		evs = append(evs, g.indexCatalogSweep()...)
	}
	if g.P.Name == "catalog" && g.chance(0.6) {
		evs = append(evs, g.missingSweep()...)
	}
	if (g.P.Name == "reads" || g.P.Name == "general") && g.P.Indexes && g.chance(0.35) {
		evs = append(evs, g.containerSweep()...)
	}
	if (g.P.Name == "reads" || g.P.Name == "general") && g.P.Indexes && g.chance(0.35) {
		evs = append(evs, g.lifecycleSweep()...)
	}
	if (g.P.Name == "derived" || g.P.Name == "audit") && g.P.Indexes && g.chance(0.4) {
		// two indexes, the one created second is dropped: the first still holds an entry per document (sorted
		// reads without criteria go through it, Count does not), the dropped one leaves nothing behind
		for _, c := range g.colls {
			if !g.created[c] {
				continue
			}
			if free := g.freeIds(c); len(g.live[c]) < 2 && len(free) >= 3 {
				evs = append(evs, E{"op": "Insert", "c": c, "docs": []interface{}{g.doc(AStr(free[1])), g.doc(AStr(free[2]))}})
				g.noteInsert(c, free[1], free[2])
			}
			f1, f2 := "k", "z"
			for _, f := range []string{f1, f2} {
				if !g.idx[c][f] {
					g.idx[c][f] = true
					evs = append(evs, E{"op": "CreateIndex", "c": c, "f": B(f)})
				}
			}
			if free := g.freeIds(c); len(free) > 0 {
				evs = append(evs, E{"op": "Insert", "c": c, "docs": []interface{}{AObj("_id", AStr(free[0]), f1, g.smallNum(), f2, g.smallNum())}})
				g.noteInsert(c, free[0])
			}
			delete(g.idx[c], f2)
			evs = append(evs, E{"op": "DropIndex", "c": c, "f": B(f2), "audit": true})
			var ids []interface{}
			for id := range g.live[c] {
				ids = append(ids, B(id))
				if len(ids) == 2 {
					break
				}
			}
			for _, dir := range []int{1, -1} {
				evs = append(evs, E{"op": "Derived", "c": c, "q": []interface{}{[]interface{}{"sort", []interface{}{[]interface{}{B(f1), dir}}}}, "js": []interface{}{0, 1}, "ids": ids})
			}
			evs = append(evs, E{"op": "UpdateFunc", "c": c, "q": []interface{}{}, "upd": []interface{}{"set", B(f2), g.smallNum()}})
			g.idx[c][f2] = true
			evs = append(evs, E{"op": "CreateIndex", "c": c, "f": B(f2), "audit": true})
			evs = append(evs, E{"op": "Derived", "c": c, "q": []interface{}{[]interface{}{"sort", []interface{}{[]interface{}{B(f2), 1}}}}, "js": []interface{}{0}, "ids": ids})
			break
		}
	}
	if g.P.Name == "ids" && g.chance(0.5) {
		evs = append(evs, g.idFormSweep()...)
	}
	if g.P.Name == "derived" && g.P.PrefixNames && len(g.colls) >= 3 && g.chance(0.5) {
		// a collection is dropped whose name is a prefix of its siblings' names: every derived read on the siblings
		// still agrees with FindAll (their documents, their counts and their ids are untouched)
		for _, c := range g.colls[:3] {
			if !g.created[c] {
				g.created[c] = true
				g.live[c] = map[string]bool{}
				g.idx[c] = map[string]bool{}
				evs = append(evs, E{"op": "CreateCollection", "c": c})
			}
			if free := g.freeIds(c); len(free) >= 2 {
				evs = append(evs, E{"op": "Insert", "c": c, "docs": []interface{}{g.doc(AStr(free[0])), g.doc(AStr(free[1]))}})
				g.noteInsert(c, free[0], free[1])
			}
		}
		g.created[g.colls[0]] = false
		g.live[g.colls[0]] = map[string]bool{}
		g.idx[g.colls[0]] = map[string]bool{}
		evs = append(evs, E{"op": "DropCollection", "c": g.colls[0]})
		for _, c := range g.colls[1:3] {
			var ids []interface{}
			for id := range g.live[c] {
				ids = append(ids, B(id))
				if len(ids) == 2 {
					break
				}
			}
			evs = append(evs, E{"op": "Derived", "c": c, "q": []interface{}{}, "js": []interface{}{0, 1}, "ids": ids})
			evs = append(evs, E{"op": "Derived", "c": c, "q": []interface{}{[]interface{}{"sort", []interface{}{}}, []interface{}{"skip", 1}}, "js": []interface{}{1}, "ids": ids})
		}
	}
	if (g.P.Name == "sort" || g.P.Name == "ties" || g.P.Name == "reads") && g.P.NumTable == "general" && g.chance(0.4) {
		evs = append(evs, g.mixedNumbersSweep()...)
	}
	for len(evs) < g.P.Ops {
		op := g.weightedOp()
		if !g.P.Indexes && (op == "CreateIndex" || op == "DropIndex") {
			continue
		}
		evs = append(evs, g.event(op))
	}
	return evs
}

// mixedNumbersSweep: integers and the fractions next to them (-2.5, -1, -0.5, 0, 0.5, 1, 1.5, 2), each number in
// every representation it has, in one field; sorted reads in both directions with windows, comparisons against
// each of them - with the sort served by the comparison (no index on the field) and by an index.
func (g *Gen) mixedNumbersSweep() []E {
	var c string
	for _, x := range g.colls {
		if g.created[x] {
			c = x
			break
		}
	}
	if c == "" {
		return nil
	}
	f := g.pick([]string{"k", "b", "z"})
	var evs []E
	var docs []interface{}
	free := g.freeIds(c)
	i := 0
	for ord, e := range g.U.nums {
		if !(e.name == "-2.5" || e.name == "-1" || e.name == "-0.5" || e.name == "0" || e.name == "0.5" || e.name == "1" || e.name == "1.5" || e.name == "2") {
			continue
		}
		for _, rep := range g.U.Reps(ord) {
			if i >= len(free) || rep == "f-" && g.chance(0.5) {
				break
			}
			docs = append(docs, AObj("_id", AStr(free[i]), f, ANum(ord, rep)))
			g.noteInsert(c, free[i])
			i++
		}
	}
	if len(docs) == 0 {
		return nil
	}
	g.r.Shuffle(len(docs), func(a, b int) { docs[a], docs[b] = docs[b], docs[a] })
	evs = append(evs, E{"op": "Insert", "c": c, "docs": docs})
	reads := func() {
		for _, dir := range []int{1, -1} {
			srt := []interface{}{"sort", []interface{}{[]interface{}{B(f), dir}, []interface{}{B("_id"), 1}}}
			evs = append(evs, E{"op": "FindAll", "c": c, "q": []interface{}{srt}})
			evs = append(evs, E{"op": "FindAll", "c": c, "q": []interface{}{srt, []interface{}{"skip", 1 + g.r.Intn(4)}, []interface{}{"limit", 1 + g.r.Intn(5)}}})
		}
		d := toV(docs[g.r.Intn(len(docs))])
		v, _ := ObjGet(d, f)
		for _, op := range []string{"gt", "lte"} {
			evs = append(evs, E{"op": "FindAll", "c": c, "q": []interface{}{[]interface{}{"where", []interface{}{"un", op, B(f), []interface{}{"lit", v}}},
				[]interface{}{"sort", []interface{}{[]interface{}{B(f), 1}, []interface{}{B("_id"), -1}}}}})
		}
	}
	reads()
	if g.P.Indexes && !g.idx[c][f] {
		g.idx[c][f] = true
		evs = append(evs, E{"op": "CreateIndex", "c": c, "f": B(f)})
		reads()
	}
	return evs
}

// idFormSweep: one document under each spelling of a UUID that is a valid _id (canonical, upper case, braces, urn:,
// bare hex), and every respelling of each of them by a point update and by a bulk update: the respelled id is
// another id (the update fails and changes nothing), whatever the stored spelling has in common with it (the bare
// UUID is a suffix of its urn: spelling, the canonical one a substring of the braced one).
func (g *Gen) idFormSweep() []E {
	var c string
	for _, x := range g.colls {
		if g.created[x] {
			c = x
			break
		}
	}
	if c == "" {
		return nil
	}
	var evs []E
	var ids []string
	for _, id := range altUuidPool {
		if !g.live[c][id] {
			ids = append(ids, id)
		}
	}
	for _, id := range g.freeIds(c) {
		if len(ids) >= 9 {
			break
		}
		if len(id) == 36 {
			ids = append(ids, id)
		}
	}
	if len(ids) == 0 {
		return nil
	}
	var docs []interface{}
	for _, id := range ids {
		docs = append(docs, AObj("_id", AStr(id), "x", g.smallNum()))
		g.noteInsert(c, id)
	}
	evs = append(evs, E{"op": "Insert", "c": c, "docs": docs, "audit": true})
	for _, id := range ids {
		var kinds []string
		switch {
		case strings.HasPrefix(id, "urn:uuid:"), strings.HasPrefix(id, "{"):
			kinds = []string{"bare", "upper"}
		case len(id) == 36:
			kinds = []string{"urn", "braces", "upper"}
		default:
			kinds = []string{"urn", "upper"}
		}
		kind := g.pick(kinds)
		if g.chance(0.6) {
			evs = append(evs, E{"op": "UpdateById", "c": c, "id": B(id), "upd": []interface{}{"idform", kind}, "audit": true})
		} else {
			evs = append(evs, E{"op": "UpdateFunc", "c": c, "q": []interface{}{[]interface{}{"where", []interface{}{"un", "eq", B("_id"), []interface{}{"lit", AStr(id)}}}},
				"upd": []interface{}{"idform", kind}, "audit": true})
		}
		evs = append(evs, E{"op": "FindById", "c": c, "id": B(id)}, E{"op": "FindById", "c": c, "id": B(idForm(id, kind))})
	}
	return evs
}
