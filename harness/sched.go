package main

// Replay of TLC-generated behaviours of CloverConc.tla on the real code (DESIGN.md 13.2).
//
// MC_ConcEmit prints one record per terminal state of the model: the initial content, the operation
// of each goroutine, the total order of their Start / Finish steps, and the model's prediction.
// A Start step is the store's Begin (the snapshot), a Finish step everything from the first
// Commit / Rollback of that transaction to the return of the public call.  Gates in a store.Store
// decorator make the goroutines take these steps in exactly the order of the record.  The recorded
// history (calls, returns, results, final audit, then a few sequential reads) goes to TraceLin like
// every other concurrent history; the model's prediction is compared here, as advisory drift.

import (
	"encoding/json"
	"fmt"
	"os"
	"runtime"
	"strconv"
	"strings"
	"sync"
	"sync/atomic"
	"time"

	"github.com/ostafen/clover/v2/store"
)

type schedRecord struct {
	Be    string          `json:"be"`
	Idx   bool            `json:"idx"`
	Docs  []int           `json:"docs"`
	Progs [][]interface{} `json:"progs"`
	T0    []int           `json:"t0"`
	T1    []int           `json:"t1"`
	Res   []interface{}   `json:"res"`
	Ab    []bool          `json:"ab"`
	Risky bool            `json:"risky"` // drawn from the pre-repair model: its prediction is not the code's
	Fin   struct {
		Idx  bool    `json:"idx"`
		Size int     `json:"size"`
		Docs []int   `json:"docs"`
		Ents [][]int `json:"ents"`
	} `json:"fin"`
}

type schedStep struct {
	g    int
	kind byte // 'S' or 'F'
}

type schedCtl struct {
	mu     sync.Mutex
	cond   *sync.Cond
	steps  []schedStep
	turn   int
	gids   map[int64]int
	began  map[int]bool
	gatedF map[int]bool
	extra  int
	stuck  bool
}

func goid() int64 {
	var buf [64]byte
	n := runtime.Stack(buf[:], false)
	f := strings.Fields(string(buf[:n]))
	id, _ := strconv.ParseInt(f[1], 10, 64)
	return id
}

func (c *schedCtl) who() int {
	c.mu.Lock()
	defer c.mu.Unlock()
	return c.gids[goid()]
}

// wait blocks until the current step of the schedule is (g, kind); false when the schedule is stuck
func (c *schedCtl) wait(g int, kind byte) bool {
	deadline := time.AfterFunc(20*time.Second, func() {
		c.mu.Lock()
		c.stuck = true
		c.mu.Unlock()
		c.cond.Broadcast()
	})
	defer deadline.Stop()
	c.mu.Lock()
	defer c.mu.Unlock()
	for !c.stuck && !(c.turn < len(c.steps) && c.steps[c.turn].g == g && c.steps[c.turn].kind == kind) {
		c.cond.Wait()
	}
	return !c.stuck
}

func (c *schedCtl) advance() {
	c.mu.Lock()
	c.turn++
	c.mu.Unlock()
	c.cond.Broadcast()
}

type sStore struct {
	inner store.Store
	c     *schedCtl
}

func (s *sStore) Close() error { return s.inner.Close() }

func (s *sStore) Begin(update bool) (store.Tx, error) {
	g := s.c.who()
	if g == 0 {
		return s.inner.Begin(update) // setup, audit, follow-up reads: not scheduled
	}
	s.c.mu.Lock()
	again := s.c.began[g]
	if again {
		s.c.extra++
	}
	s.c.mu.Unlock()
	if again { // a second transaction of the same operation: not gated (the history will tell)
		return s.inner.Begin(update)
	}
	s.c.wait(g, 'S')
	tx, err := s.inner.Begin(update)
	s.c.mu.Lock()
	s.c.began[g] = true
	s.c.mu.Unlock()
	s.c.advance()
	if err != nil {
		return nil, err
	}
	return &sTx{Tx: tx, c: s.c, g: g}, nil
}

type sTx struct {
	store.Tx
	c    *schedCtl
	g    int
	once sync.Once
}

func (t *sTx) finishGate() {
	t.once.Do(func() {
		t.c.wait(t.g, 'F')
		t.c.mu.Lock()
		t.c.gatedF[t.g] = true
		t.c.mu.Unlock()
	})
}

func (t *sTx) Commit() error   { t.finishGate(); return t.Tx.Commit() }
func (t *sTx) Rollback() error { t.finishGate(); return t.Tx.Rollback() }

// schedEvent turns a model operation into a harness event
func schedEvent(op []interface{}, c string, ids []string, val func(int) V, stamp *int) E {
	num := func(i int) int { return int(op[i].(float64)) }
	where := func(a int) []interface{} {
		return []interface{}{[]interface{}{"where", []interface{}{"un", "eq", B("x"), []interface{}{"lit", val(a)}}}}
	}
	switch op[0].(string) {
	case "Insert":
		return E{"op": "Insert", "c": c, "docs": []interface{}{AObj("_id", AStr(ids[num(1)-1]), "x", val(num(2)))}}
	case "UpdateById":
		return E{"op": "UpdateById", "c": c, "id": B(ids[num(1)-1]), "upd": []interface{}{"set", B("x"), val(num(2))}}
	case "UpdateWhere":
		*stamp++
		return E{"op": "Update", "c": c, "q": where(num(1)),
			"upd": []interface{}{"setall", []interface{}{[]interface{}{B("u"), AStr(fmt.Sprintf("op%d", *stamp))}, []interface{}{B("x"), val(num(2))}}}}
	case "DeleteWhere":
		return E{"op": "Delete", "c": c, "q": where(num(1))}
	case "DeleteById":
		return E{"op": "DeleteById", "c": c, "id": B(ids[num(1)-1])}
	case "CreateIndex", "DropIndex":
		return E{"op": op[0].(string), "c": c, "f": B("x")}
	case "Find":
		return E{"op": "FindAll", "c": c, "q": where(num(1))}
	case "Count":
		return E{"op": "Count", "c": c, "q": []interface{}{}}
	}
	panic(fmt.Sprintf("sched: unknown model operation %v", op))
}

// predictedClass maps the model's result of an operation to the outcome class of the harness
func predictedClass(res interface{}, aborted bool) string {
	if aborted {
		return "conflict"
	}
	if s, ok := res.(string); ok {
		switch s {
		case "dup":
			return "err/ErrDuplicateKey"
		case "nodoc":
			return "err/ErrDocumentNotExist"
		case "noop":
			return "noop" // DeleteById of an absent id: success or ErrDocumentNotExist
		case "exists":
			return "err/ErrIndexExist"
		case "noindex":
			return "err/ErrIndexNotExist"
		}
	}
	return "ok"
}

func observedClass(res E) string {
	if res["conflict"] != nil {
		return "conflict"
	}
	if res["st"] == "ok" {
		return "ok"
	}
	return fmt.Sprintf("%v/%v", res["st"], res["err"])
}

func runSched(rec *schedRecord, seed int64) ([][]byte, map[string]int) {
	stats := map[string]int{}
	p := &Profile{Name: "conc", NumTable: "general", TimeTable: "general", Colls: 1, MaxDocs: 6, Indexes: true, W: weights(nil), NoGenIds: true}
	g := NewGen(seed, p)
	c := g.colls[0]
	ids := g.ids
	val := func(v int) V { return ANum(g.smallN[v], "i") }
	dir, err := os.MkdirTemp(scratchBase(), "verif-sched-")
	if err != nil {
		panic(err)
	}
	defer os.RemoveAll(dir)
	be := "bolt"
	if rec.Be == "badger" {
		be = []string{"badgermem", "badger"}[int(seed)%5/4] // mostly in memory (fast), sometimes on disk
	}
	G := len(rec.Progs)
	ctl := &schedCtl{gids: map[int64]int{}, began: map[int]bool{}, gatedF: map[int]bool{}}
	ctl.cond = sync.NewCond(&ctl.mu)
	type ev struct {
		t    int
		g    int
		kind byte
	}
	var order []ev
	for gi := 0; gi < G; gi++ {
		order = append(order, ev{rec.T0[gi], gi + 1, 'S'}, ev{rec.T1[gi], gi + 1, 'F'})
	}
	for i := 0; i < len(order); i++ {
		for j := i + 1; j < len(order); j++ {
			if order[j].t < order[i].t {
				order[i], order[j] = order[j], order[i]
			}
		}
	}
	for _, o := range order {
		ctl.steps = append(ctl.steps, schedStep{o.g, o.kind})
	}
	b, err := NewBackend(be, dir, func(s store.Store) store.Store { return &sStore{inner: s, c: ctl} })
	if err != nil {
		panic(err)
	}
	defer b.Destroy()
	b.enter = func(parent int64) func() {
		me := goid()
		ctl.mu.Lock()
		if gi := ctl.gids[parent]; gi != 0 {
			ctl.gids[me] = gi
		}
		ctl.mu.Unlock()
		return func() {
			ctl.mu.Lock()
			delete(ctl.gids, me)
			ctl.mu.Unlock()
		}
	}
	x := &Exec{U: g.U, FileDir: dir, Backends: []*Backend{b}}
	var ticket int64
	var mu sync.Mutex
	var evs []concEvent
	do := func(gi int, e E) E {
		t1 := atomic.AddInt64(&ticket, 1)
		res := x.Run(b, e, nil)
		t2 := atomic.AddInt64(&ticket, 1)
		mu.Lock()
		evs = append(evs, concEvent{g: gi, e: e, call: t1, ret: t2, res: res})
		mu.Unlock()
		return res
	}
	// the initial content
	do(0, E{"op": "CreateCollection", "c": c})
	if rec.Idx {
		do(0, E{"op": "CreateIndex", "c": c, "f": B("x")})
	}
	docs := make([]interface{}, 0)
	for i, v := range rec.Docs {
		if v > 0 {
			docs = append(docs, AObj("_id", AStr(ids[i]), "x", val(v)))
		}
	}
	if len(docs) > 0 {
		do(0, E{"op": "Insert", "c": c, "docs": docs})
	}
	stamp := 0
	events := make([]E, G)
	for gi := 0; gi < G; gi++ {
		events[gi] = schedEvent(rec.Progs[gi], c, ids, val, &stamp)
	}
	results := make([]E, G)
	var wg sync.WaitGroup
	for gi := 0; gi < G; gi++ {
		wg.Add(1)
		go func(gi int) {
			defer wg.Done()
			ctl.mu.Lock()
			ctl.gids[goid()] = gi + 1
			ctl.mu.Unlock()
			// the call is issued when its Start step is due, so that the recorded real-time order
			// is the one of the schedule
			if !ctl.wait(gi+1, 'S') {
				return
			}
			results[gi] = do(gi+1, events[gi])
			ctl.mu.Lock()
			began, gated := ctl.began[gi+1], ctl.gatedF[gi+1]
			ctl.mu.Unlock()
			switch {
			case began && gated:
				ctl.advance() // the Finish step is complete
			case !began:
				// the operation returned without opening a transaction: give up both of its steps
				if ctl.wait(gi+1, 'S') {
					ctl.advance()
				}
				if ctl.wait(gi+1, 'F') {
					ctl.advance()
				}
			default:
				if ctl.wait(gi+1, 'F') {
					ctl.advance()
				}
			}
			ctl.mu.Lock()
			delete(ctl.gids, goid())
			ctl.mu.Unlock()
		}(gi)
	}
	wg.Wait()
	if ctl.stuck {
		stats["sched/stuck"]++
		if os.Getenv("VERIF_SCHED_DEBUG") != "" {
			j, _ := json.Marshal(rec)
			fmt.Fprintf(os.Stderr, "stuck: %s\n", j)
		}
		return nil, stats
	}
	stats["sched/replayed"]++
	if ctl.extra > 0 {
		stats["sched/extra-transactions"] += ctl.extra
	}
	// what a sequential client sees afterwards
	post := []E{{"op": "Count", "c": c, "q": []interface{}{}}, {"op": "HasIndex", "c": c, "f": B("x")},
		{"op": "FindAll", "c": c, "q": []interface{}{[]interface{}{"where", []interface{}{"un", "eq", B("x"), []interface{}{"lit", val(1)}}}}},
		{"op": "FindAll", "c": c, "q": []interface{}{[]interface{}{"where", []interface{}{"un", "eq", B("x"), []interface{}{"lit", val(2)}}}}}}
	for _, e := range post {
		do(0, e)
	}
	audit := x.Audit(b)
	if rec.Risky {
		stats["sched/risky-replayed"]++
		lines, st := concLines(evs, audit, seed, be, G)
		for k, v := range st {
			stats[k] += v
		}
		return lines, stats
	}
	// advisory: the model's prediction
	agree := true
	for gi := 0; gi < G; gi++ {
		want, got := predictedClass(rec.Res[gi], rec.Ab[gi]), observedClass(results[gi])
		if want == "noop" {
			if got != "ok" && got != "err/ErrDocumentNotExist" {
				agree = false
			}
		} else if want != got {
			agree = false
		}
	}
	if colls, ok := audit["colls"].([]interface{}); ok && len(colls) == 1 {
		cm := colls[0].(E)
		if cm["size"] != rec.Fin.Size || (len(cm["idx"].([]interface{})) > 0) != rec.Fin.Idx ||
			len(cm["entries"].([]interface{})) != len(rec.Fin.Ents) {
			agree = false
		}
		n := 0
		for _, v := range rec.Fin.Docs {
			if v > 0 {
				n++
			}
		}
		if len(cm["docs"].([]interface{})) != n {
			agree = false
		}
	} else {
		agree = false
	}
	if agree {
		stats["sched/model-agrees"]++
	} else {
		stats["sched/model-drift"]++
		if os.Getenv("VERIF_SCHED_DEBUG") != "" {
			j, _ := json.Marshal(rec)
			fmt.Fprintf(os.Stderr, "drift: %s\n  observed: %v %v\n", j, results, audit)
		}
	}
	lines, st := concLines(evs, audit, seed, be, G)
	for k, v := range st {
		stats[k] += v
	}
	return lines, stats
}

func loadSchedules(path string) []*schedRecord {
	raw, err := os.ReadFile(path)
	if err != nil {
		panic(err)
	}
	var recs []*schedRecord
	if err := json.Unmarshal(raw, &recs); err != nil {
		panic(err)
	}
	return recs
}
