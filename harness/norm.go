package main

// C18: Go values built together with their abstract description (GoVal, see CloverNorm.tla).
// The descriptors of the struct catalogue are written by hand, not derived by reflection (that
// would re-implement the function under test).

import (
	"fmt"
	"math/rand"
	"reflect"
	"sort"
	"strings"
	"time"
	"unicode/utf8"

	"github.com/ostafen/clover/v2/document"
)

type goGen struct {
	r *rand.Rand
	u *Universe
}

// small numbers that fit every width and are exact in float32
var smallOrdNames = []string{"0", "1", "2", "3", "5", "7", "10", "100"}

func (g *goGen) smallOrd() (int, int64) {
	name := smallOrdNames[g.r.Intn(len(smallOrdNames))]
	for ord, e := range g.u.nums {
		if e.name == name {
			return ord, *e.i
		}
	}
	panic("no such number " + name)
}

func zeroFlag(v int64) int {
	if v == 0 {
		return 1
	}
	return 0
}

func ptrTo(v interface{}) interface{} {
	p := reflect.New(reflect.TypeOf(v))
	p.Elem().Set(reflect.ValueOf(v))
	return p.Interface()
}

func (g *goGen) scalar() (interface{}, V) {
	ord, iv := g.smallOrd()
	switch g.r.Intn(16) {
	case 0:
		return int(iv), V{"int", ord, 0, zeroFlag(iv)}
	case 1:
		return int8(iv), V{"int", ord, 8, zeroFlag(iv)}
	case 2:
		return int16(iv), V{"int", ord, 16, zeroFlag(iv)}
	case 3:
		return int32(iv), V{"int", ord, 32, zeroFlag(iv)}
	case 4:
		return int64(iv), V{"int", ord, 64, zeroFlag(iv)}
	case 5:
		return uint(iv), V{"uint", ord, 0, zeroFlag(iv)}
	case 6:
		return uint8(iv), V{"uint", ord, 8, zeroFlag(iv)}
	case 7:
		return uint16(iv), V{"uint", ord, 16, zeroFlag(iv)}
	case 8:
		return uint32(iv), V{"uint", ord, 32, zeroFlag(iv)}
	case 9:
		return uint64(iv), V{"uint", ord, 64, zeroFlag(iv)}
	case 10:
		return float32(iv), V{"float", ord, 32, zeroFlag(iv)}
	case 11:
		return float64(iv), V{"float", ord, 64, zeroFlag(iv)}
	case 12:
		s := strPool[g.r.Intn(len(strPool))]
		return s, V{"string", B(s)}
	case 13:
		b := g.r.Intn(2)
		return b == 1, V{"bool", b}
	case 14:
		ord, z := g.r.Intn(len(g.u.times)), g.r.Intn(genZones)
		return g.u.timeOf(ord, z), V{"time", ord, z}
	}
	return nil, V{"nil"}
}

type myInt int
type myStr string

func (g *goGen) unsupported() (interface{}, V) {
	switch g.r.Intn(3) {
	case 0:
		return make(chan int), V{"unsupported"}
	case 1:
		return func() {}, V{"unsupported"}
	}
	return complex(1, 2), V{"unsupported"}
}

func (g *goGen) value(depth int) (interface{}, V) {
	k := g.r.Intn(100)
	switch {
	case k < 34 || depth == 0:
		return g.scalar()
	case k < 46: // pointer chains, ending in a value or in a nil pointer
		v, a := g.value(depth - 1)
		if v == nil {
			var p *int
			return p, V{"nilptr"}
		}
		n := 1 + g.r.Intn(3)
		for i := 0; i < n; i++ {
			v = ptrTo(v)
			a = V{"ptr", a}
		}
		return v, a
	case k < 52:
		switch g.r.Intn(3) {
		case 0:
			var p *string
			return p, V{"nilptr"}
		case 1:
			var p **int
			return p, V{"nilptr"}
		}
		var p *time.Time
		return p, V{"nilptr"}
	case k < 62: // map[string]interface{}
		n := g.r.Intn(4)
		m := map[string]interface{}{}
		pairs := make([]interface{}, 0)
		keys := []string{"a", "b", "ab", "", "z"}
		perm := g.r.Perm(len(keys))
		for i := 0; i < n; i++ {
			v, a := g.value(depth - 1)
			m[keys[perm[i]]] = v
			pairs = append(pairs, []interface{}{B(keys[perm[i]]), a})
		}
		return m, V{"map", 1, pairs}
	case k < 66: // typed maps
		ord, iv := g.smallOrd()
		if g.r.Intn(2) == 0 {
			return map[string]int16{"k": int16(iv)}, V{"map", 1, []interface{}{[]interface{}{B("k"), V{"int", ord, 16, zeroFlag(iv)}}}}
		}
		return map[myStr]uint8{"k": uint8(iv)}, V{"map", 1, []interface{}{[]interface{}{B("k"), V{"uint", ord, 8, zeroFlag(iv)}}}}
	case k < 70: // non-string keys; a nil map has no pairs, its key type decides all the same
		switch g.r.Intn(4) {
		case 0:
			return map[int]string{1: "a"}, V{"map", 0, []interface{}{[]interface{}{B("1"), V{"string", B("a")}}}}
		case 1:
			var m map[int]string
			return m, V{"map", 0, []interface{}{}}
		case 2:
			var m map[string]int8
			return m, V{"map", 1, []interface{}{}}
		}
		return map[bool]int{}, V{"map", 0, []interface{}{}}
	case k < 80: // []interface{}
		n := g.r.Intn(4)
		s := make([]interface{}, 0)
		el := make([]interface{}, 0)
		for i := 0; i < n; i++ {
			v, a := g.value(depth - 1)
			s = append(s, v)
			el = append(el, a)
		}
		return s, V{"slice", el}
	case k < 86: // typed slices / arrays
		ord, iv := g.smallOrd()
		switch g.r.Intn(5) {
		case 0:
			return []int32{int32(iv), int32(iv)}, V{"slice", []interface{}{V{"int", ord, 32, zeroFlag(iv)}, V{"int", ord, 32, zeroFlag(iv)}}}
		case 1:
			return [2]uint16{uint16(iv), 0}, V{"array", []interface{}{V{"uint", ord, 16, zeroFlag(iv)}, V{"uint", g.zeroOrd(), 16, 1}}}
		case 2:
			return [0]string{}, V{"array", []interface{}{}}
		case 3:
			var np *int
			x := int(iv)
			return []*int{&x, np}, V{"slice", []interface{}{V{"ptr", V{"int", ord, 0, zeroFlag(iv)}}, V{"nilptr"}}}
		}
		return []string{}, V{"slice", []interface{}{}}
	case k < 90:
		return g.unsupported()
	default:
		return g.structValue(depth - 1)
	}
}

func (g *goGen) zeroOrd() int {
	for ord, e := range g.u.nums {
		if e.name == "0" {
			return ord
		}
	}
	panic("no zero")
}

// ---------------------------------------------------------------- the struct catalogue

type SPlain struct {
	A      int
	B      string
	hidden int
}

type STags struct {
	Name string   `clover:"name"`
	Age  uint8    `clover:"age,omitempty"`
	Note *string  `clover:"note,omitempty"`
	Skip float32  `clover:",omitempty"`
	Tags []string `clover:"tags,omitempty"`
	Any  interface{}
}

type Inner struct {
	X int16
	Y string `clover:"y"`
	R uint8  `clover:"renamed"` // a stored name that encoding/json would not match with the field by itself
}

type SEmb struct {
	Inner
	Z bool
}

type SEmbPtr struct {
	*Inner
	W uint32 `clover:"w"`
}

type SEmbScalar struct {
	myInt // unexported embedded: skipped
	MyExported
	V int
}

type MyExported int

type SNested struct {
	In  Inner  `clover:"in"`
	Ptr *Inner `clover:"ptr,omitempty"`
	T   time.Time
	PT  *time.Time `clover:"pt"`
	M   map[string]int8
}

type SOverride struct {
	Inner
	X string // declared after the embedded struct: overrides the flattened X
}

type SSwap struct {
	A int8 `clover:"B"`
	B int8 `clover:"A"`
}

type SChain struct {
	ID  string `clover:"id_"`
	Ext int16  `clover:"ID"`
}

type SPtrOmit struct {
	PI  *int    `clover:"pi,omitempty"`
	PB  *bool   `clover:",omitempty"`
	PS  *string `clover:"ps,omitempty"`
	PPI **int   `clover:"ppi,omitempty"`
}

type SBad struct {
	A  int
	Ch chan int
}

// two function-local types with the same name and package path
func localRecA(s string, ord int, iv int64) (interface{}, V) {
	type Rec struct {
		K int `clover:"k"`
		S string
	}
	return Rec{K: int(iv), S: s}, V{"struct", []interface{}{
		fld("K", "k", 0, 0, 1, V{"int", ord, 0, zeroFlag(iv)}),
		fld("S", "", 0, 0, 1, V{"string", B(s)}),
	}}
}

func localRecB(s string, ord int, iv int64, in Inner, inA V) (interface{}, V) {
	type Rec struct {
		Name string `clover:"nm,omitempty"`
		L    uint8
		Inner
	}
	return Rec{Name: s, L: uint8(iv), Inner: in}, V{"struct", []interface{}{
		fld("Name", "nm", 1, 0, 1, V{"string", B(s)}),
		fld("L", "", 0, 0, 1, V{"uint", ord, 8, zeroFlag(iv)}),
		fld("Inner", "", 0, 1, 1, inA),
	}}
}

func fld(name, tag string, omit, emb, exported int, g V) []interface{} {
	return []interface{}{B(name), B(tag), omit, emb, exported, g}
}

func (g *goGen) inner() (Inner, V) {
	ord, iv := g.smallOrd()
	s := strPool[g.r.Intn(len(strPool))]
	return Inner{X: int16(iv), Y: s, R: uint8(iv)}, V{"struct", []interface{}{
		fld("X", "", 0, 0, 1, V{"int", ord, 16, zeroFlag(iv)}),
		fld("Y", "y", 0, 0, 1, V{"string", B(s)}),
		fld("R", "renamed", 0, 0, 1, V{"uint", ord, 8, zeroFlag(iv)}),
	}}
}

func (g *goGen) structValue(depth int) (interface{}, V) {
	ord, iv := g.smallOrd()
	s := strPool[g.r.Intn(len(strPool))]
	var v interface{}
	var a V
	switch g.r.Intn(14) {
	case 13:
		// stored names that are other fields' Go names: a swap, and a chain (ID is stored as _id, Ext as ID)
		ord2, iv2 := g.smallOrd()
		if g.r.Intn(2) == 0 {
			v = SSwap{A: int8(iv), B: int8(iv2)}
			a = V{"struct", []interface{}{
				fld("A", "B", 0, 0, 1, V{"int", ord, 8, zeroFlag(iv)}),
				fld("B", "A", 0, 0, 1, V{"int", ord2, 8, zeroFlag(iv2)}),
			}}
		} else {
			v = SChain{ID: s, Ext: int16(iv2)}
			a = V{"struct", []interface{}{
				fld("ID", "id_", 0, 0, 1, V{"string", B(s)}),
				fld("Ext", "ID", 0, 0, 1, V{"int", ord2, 16, zeroFlag(iv2)}),
			}}
		}
	case 12:
		// omitempty on pointers: only a nil pointer is empty, a pointer to a zero value is kept
		var pi *int
		var pb *bool
		var ps *string
		var ppi **int
		piA, pbA, psA, ppiA := V{"nilptr"}, V{"nilptr"}, V{"nilptr"}, V{"nilptr"}
		zero := g.r.Intn(2) == 0
		if g.r.Intn(3) > 0 {
			n := int(iv)
			o := ord
			if zero {
				for zo, e := range g.u.nums {
					if e.i != nil && *e.i == 0 {
						n, o = 0, zo
					}
				}
			}
			pi = &n
			piA = V{"ptr", V{"int", o, 0, zeroFlag(int64(n))}}
			pp := &n
			ppi = &pp
			ppiA = V{"ptr", V{"ptr", V{"int", o, 0, zeroFlag(int64(n))}}}
		}
		if g.r.Intn(3) > 0 {
			bv := !zero
			pb = &bv
			pbA = V{"ptr", V{"bool", map[bool]int{false: 0, true: 1}[bv]}}
		}
		if g.r.Intn(3) > 0 {
			sv := s
			if zero {
				sv = ""
			}
			ps = &sv
			psA = V{"ptr", V{"string", B(sv)}}
		}
		v = SPtrOmit{PI: pi, PB: pb, PS: ps, PPI: ppi}
		a = V{"struct", []interface{}{
			fld("PI", "pi", 1, 0, 1, piA),
			fld("PB", "", 1, 0, 1, pbA),
			fld("PS", "ps", 1, 0, 1, psA),
			fld("PPI", "ppi", 1, 0, 1, ppiA),
		}}
	case 8:
		// unnamed struct types: distinct types that share package path and (empty) name
		v = struct {
			Title string `clover:"title"`
			Pages int    `clover:"pages,omitempty"`
		}{Title: s, Pages: int(iv)}
		a = V{"struct", []interface{}{
			fld("Title", "title", 0, 0, 1, V{"string", B(s)}),
			fld("Pages", "pages", 1, 0, 1, V{"int", ord, 0, zeroFlag(iv)}),
		}}
	case 9:
		v = struct {
			Author string `clover:"author"`
		}{Author: s}
		a = V{"struct", []interface{}{
			fld("Author", "author", 0, 0, 1, V{"string", B(s)}),
		}}
	case 10:
		v, a = localRecA(s, ord, iv)
	case 11:
		in, inA := g.inner()
		v, a = localRecB(s, ord, iv, in, inA)
	case 0:
		v = SPlain{A: int(iv), B: s, hidden: 7}
		a = V{"struct", []interface{}{
			fld("A", "", 0, 0, 1, V{"int", ord, 0, zeroFlag(iv)}),
			fld("B", "", 0, 0, 1, V{"string", B(s)}),
			fld("hidden", "", 0, 0, 0, V{"int", ord, 0, 0}),
		}}
	case 1:
		var note *string
		noteA := V{"nilptr"}
		if g.r.Intn(2) == 0 {
			n := s
			note = &n
			noteA = V{"ptr", V{"string", B(s)}}
		}
		ord2, iv2 := g.smallOrd()
		var tags []string
		tagsA := V{"slice", []interface{}{}}
		if g.r.Intn(2) == 0 {
			tags = []string{"t"}
			tagsA = V{"slice", []interface{}{V{"string", B("t")}}}
		}
		anyV, anyA := g.value(depth)
		v = STags{Name: s, Age: uint8(iv), Note: note, Skip: float32(iv2), Tags: tags, Any: anyV}
		a = V{"struct", []interface{}{
			fld("Name", "name", 0, 0, 1, V{"string", B(s)}),
			fld("Age", "age", 1, 0, 1, V{"uint", ord, 8, zeroFlag(iv)}),
			fld("Note", "note", 1, 0, 1, noteA),
			fld("Skip", "", 1, 0, 1, V{"float", ord2, 32, zeroFlag(iv2)}),
			fld("Tags", "tags", 1, 0, 1, tagsA),
			fld("Any", "", 0, 0, 1, anyA),
		}}
	case 2:
		in, inA := g.inner()
		z := g.r.Intn(2)
		v = SEmb{Inner: in, Z: z == 1}
		a = V{"struct", []interface{}{
			fld("Inner", "", 0, 1, 1, inA),
			fld("Z", "", 0, 0, 1, V{"bool", z}),
		}}
	case 3:
		var ip *Inner
		ipA := V{"nilptr"}
		if g.r.Intn(2) == 0 {
			in, inA := g.inner()
			ip = &in
			ipA = V{"ptr", inA}
		}
		v = SEmbPtr{Inner: ip, W: uint32(iv)}
		a = V{"struct", []interface{}{
			fld("Inner", "", 0, 1, 1, ipA),
			fld("W", "w", 0, 0, 1, V{"uint", ord, 32, zeroFlag(iv)}),
		}}
	case 4:
		ord2, iv2 := g.smallOrd()
		v = SEmbScalar{myInt: 3, MyExported: MyExported(iv), V: int(iv2)}
		a = V{"struct", []interface{}{
			fld("myInt", "", 0, 1, 0, V{"int", ord, 0, 0}),
			fld("MyExported", "", 0, 1, 1, V{"int", ord, 0, zeroFlag(iv)}),
			fld("V", "", 0, 0, 1, V{"int", ord2, 0, zeroFlag(iv2)}),
		}}
	case 5:
		in, inA := g.inner()
		var ip *Inner
		ipA := V{"nilptr"}
		if g.r.Intn(2) == 0 {
			in2, in2A := g.inner()
			ip = &in2
			ipA = V{"ptr", in2A}
		}
		tord, tz := g.r.Intn(len(g.u.times)), g.r.Intn(genZones)
		t := g.u.timeOf(tord, tz)
		var pt *time.Time
		ptA := V{"nilptr"}
		if g.r.Intn(2) == 0 {
			t2 := t
			pt = &t2
			ptA = V{"ptr", V{"time", tord, tz}}
		}
		var m map[string]int8
		mA := V{"map", 1, []interface{}{}}
		if g.r.Intn(2) == 0 {
			m = map[string]int8{"q": int8(iv)}
			mA = V{"map", 1, []interface{}{[]interface{}{B("q"), V{"int", ord, 8, zeroFlag(iv)}}}}
		}
		v = SNested{In: in, Ptr: ip, T: t, PT: pt, M: m}
		a = V{"struct", []interface{}{
			fld("In", "in", 0, 0, 1, inA),
			fld("Ptr", "ptr", 1, 0, 1, ipA),
			fld("T", "", 0, 0, 1, V{"time", tord, tz}),
			fld("PT", "pt", 0, 0, 1, ptA),
			fld("M", "", 0, 0, 1, mA),
		}}
	case 6:
		in, inA := g.inner()
		v = SOverride{Inner: in, X: s}
		a = V{"struct", []interface{}{
			fld("Inner", "", 0, 1, 1, inA),
			fld("X", "", 0, 0, 1, V{"string", B(s)}),
		}}
	default:
		v = SBad{A: int(iv), Ch: make(chan int)}
		a = V{"struct", []interface{}{
			fld("A", "", 0, 0, 1, V{"int", ord, 0, zeroFlag(iv)}),
			fld("Ch", "", 0, 0, 1, V{"unsupported"}),
		}}
	}
	if g.r.Intn(3) == 0 {
		return ptrTo(v), V{"ptr", a}
	}
	return v, a
}

// ---------------------------------------------------------------- observations

func auxNorm(r *rand.Rand, n int, emit func(E), stats map[string]int) {
	u := NewUniverse("general", "general")
	g := &goGen{r: r, u: u}
	for i := 0; i < n; i++ {
		v, a := g.value(3)
		if i == 1 { // deterministic witness of the open finding on Unmarshal and zone offsets with seconds
			ord, iv := g.smallOrd()
			in := Inner{X: int16(iv), Y: "a", R: uint8(iv)}
			inA := V{"struct", []interface{}{
				fld("X", "", 0, 0, 1, V{"int", ord, 16, zeroFlag(iv)}),
				fld("Y", "y", 0, 0, 1, V{"string", B("a")}),
				fld("R", "renamed", 0, 0, 1, V{"uint", ord, 8, zeroFlag(iv)}),
			}}
			v = SNested{In: in, T: u.timeOf(2, 4)}
			a = V{"struct", []interface{}{
				fld("In", "in", 0, 0, 1, inA),
				fld("Ptr", "ptr", 1, 0, 1, V{"nilptr"}),
				fld("T", "", 0, 0, 1, V{"time", 2, 4}),
				fld("PT", "pt", 0, 0, 1, V{"nilptr"}),
				fld("M", "", 0, 0, 1, V{"map", 1, []interface{}{}}),
			}}
		}
		if i == 0 { // deterministic witness of the open finding on Unmarshal and invalid UTF-8
			ord, iv := g.smallOrd()
			v = SPlain{A: int(iv), B: "\xff\x00"}
			a = V{"struct", []interface{}{
				fld("A", "", 0, 0, 1, V{"int", ord, 0, zeroFlag(iv)}),
				fld("B", "", 0, 0, 1, V{"string", B("\xff\x00")}),
				fld("hidden", "", 0, 0, 0, V{"int", ord, 0, 0}),
			}}
		}
		obs := []interface{}{"panic"}
		again := []interface{}{"panic"}
		safely(func() {
			d := document.NewDocument()
			d.Set("keep", int64(1))
			d.Set("f", v)
			if d.Has("f") {
				got := d.Get("f")
				obs = []interface{}{"set", u.Alpha(got)}
				d2 := document.NewDocument()
				d2.Set("g", got)
				if d2.Has("g") {
					again = []interface{}{"set", u.Alpha(d2.Get("g"))}
				} else {
					again = []interface{}{"unchanged"}
				}
			} else {
				fields := d.Fields(true)
				if len(fields) == 1 && fields[0] == "keep" {
					obs = []interface{}{"unchanged"}
				} else {
					obs = []interface{}{"changed"}
				}
				again = obs
			}
		})
		emit(E{"kind": "norm", "g": a, "obs": obs, "again": again})
		stats["norm/"+obs[0].(string)+"/"+a[0].(string)]++

		// NewDocumentOf on structs and maps, and the way back
		if a[0] == "struct" || a[0] == "map" || (a[0] == "ptr" && toV(a[1])[0] == "struct") {
			dobs := []interface{}{"panic"}
			rt := "skipped"
			safely(func() {
				d := document.NewDocumentOf(v)
				if d == nil {
					dobs = []interface{}{"nil"}
					return
				}
				dobs = []interface{}{"doc", u.Alpha(d.ToMap())}
				rt = roundTrip(d, v)
			})
			emit(E{"kind": "normdoc", "g": a, "obs": dobs, "rt": rt})
			stats["normdoc/"+dobs[0].(string)+"/"+rt]++
		}
	}
}

// roundTrip: a struct converted to a document and unmarshalled back is unchanged.  Only struct
// types whose fields survive encoding/json (which Unmarshal goes through) are compared.
func roundTrip(d *document.Document, orig interface{}) string {
	rv := reflect.ValueOf(orig)
	for rv.Kind() == reflect.Ptr {
		rv = rv.Elem()
	}
	switch rv.Interface().(type) {
	case SPlain:
		o := rv.Interface().(SPlain)
		var back SPlain
		if err := d.Unmarshal(&back); err != nil {
			return "error"
		}
		o.hidden = 0
		if reflect.DeepEqual(o, back) {
			return "same"
		}
		if !utf8.ValidString(o.B) {
			return "diff:invalid-utf8" // Unmarshal goes through encoding/json
		}
		return "diff"
	case SEmb:
		var back SEmb
		if err := d.Unmarshal(&back); err != nil {
			return "error"
		}
		if reflect.DeepEqual(rv.Interface().(SEmb), back) {
			return "same"
		}
		if !utf8.ValidString(rv.Interface().(SEmb).Y) {
			return "diff:invalid-utf8"
		}
		return "diff"
	case SNested, SEmbPtr, SPtrOmit, STags, SSwap, SChain:
		// types with pointers, times and nested structs: compared through the documents of the original and of the
		// struct that came back (two structs with equal documents may still differ in a nil pointer against a
		// pointer to a zero value, which omitempty cannot tell apart either)
		if t, ok := rv.Interface().(STags); ok && t.Any != nil {
			return "skipped" // an interface{} field comes back with encoding/json's types
		}
		back := reflect.New(rv.Type())
		if err := d.Unmarshal(back.Interface()); err != nil {
			return "error"
		}
		d2 := document.NewDocumentOf(back.Elem().Interface())
		if d2 == nil {
			return "diff"
		}
		u := NewUniverse("general", "general")
		a1, a2 := u.alphaLoose(d.ToMap()), u.alphaLoose(d2.ToMap())
		if fmt.Sprint(a1) == fmt.Sprint(a2) {
			return "same"
		}
		if hasInvalidUTF8(d.ToMap()) {
			return "diff:invalid-utf8"
		}
		if hasSubMinuteZone(d.ToMap()) {
			return "diff:subminute-zone" // Unmarshal goes through encoding/json, whose RFC 3339 text has no seconds in the offset
		}
		return "diff"
	}
	return "skipped"
}

func hasSubMinuteZone(x interface{}) bool {
	switch v := x.(type) {
	case time.Time:
		_, off := v.Zone()
		return off%60 != 0
	case map[string]interface{}:
		for _, e := range v {
			if hasSubMinuteZone(e) {
				return true
			}
		}
	case []interface{}:
		for _, e := range v {
			if hasSubMinuteZone(e) {
				return true
			}
		}
	}
	return false
}

// alphaLoose renders a canonical value for comparison only (numbers and times as Go prints them)
func (u *Universe) alphaLoose(x interface{}) string {
	switch v := x.(type) {
	case map[string]interface{}:
		keys := make([]string, 0, len(v))
		for k := range v {
			keys = append(keys, k)
		}
		sort.Strings(keys)
		var sb strings.Builder
		sb.WriteString("{")
		for _, k := range keys {
			fmt.Fprintf(&sb, "%q:%s,", k, u.alphaLoose(v[k]))
		}
		return sb.String() + "}"
	case []interface{}:
		var sb strings.Builder
		sb.WriteString("[")
		for _, e := range v {
			sb.WriteString(u.alphaLoose(e) + ",")
		}
		return sb.String() + "]"
	case time.Time:
		_, off := v.Zone()
		return fmt.Sprintf("time(%d,%d)", v.UnixNano(), off)
	}
	return fmt.Sprintf("%T(%#v)", x, x)
}

func hasInvalidUTF8(x interface{}) bool {
	switch v := x.(type) {
	case string:
		return !utf8.ValidString(v)
	case map[string]interface{}:
		for k, e := range v {
			if !utf8.ValidString(k) || hasInvalidUTF8(e) {
				return true
			}
		}
	case []interface{}:
		for _, e := range v {
			if hasInvalidUTF8(e) {
				return true
			}
		}
	}
	return false
}

func auxDocPath(r *rand.Rand, n int, emit func(E), stats map[string]int) {
	u := NewUniverse("general", "general")
	g := &Gen{r: r, U: u, P: &Profile{}}
	for ord, e := range u.nums {
		if e.i != nil && *e.i >= 0 && *e.i <= 10 {
			g.smallN = append(g.smallN, ord)
		}
	}
	gg := &goGen{r: r, u: u}
	paths := []string{"a", "a.b", "a.b.c", "b", "a.c", "", "a..b", "x.y", "b.a", ".", "a.", ".a"}
	for i := 0; i < n; i++ {
		d := document.NewDocument()
		init := AObj()
		if i%3 == 1 {
			// a document that already has top-level keys which *contain* dots (from a map or a struct
			// tag): they are not paths, and Set / Get / Has on the same text address the nested field
			mm := map[string]interface{}{}
			for _, k := range []string{"a.b", "x.y", "a.", "b", "a.b.c"} {
				if r.Intn(2) == 0 {
					v := g.smallNum()
					mm[k] = u.Gamma(v)
					init = ObjSet(init, k, v)
				}
			}
			d = document.NewDocumentOf(mm)
		}
		steps := make([]interface{}, 0)
		m := 1 + r.Intn(6)
		forced := ""
		for s := 0; s < m; s++ {
			p := paths[r.Intn(len(paths))]
			if forced != "" {
				p, forced = forced, ""
			}
			// any Go value, supported or not: an unsupported one must leave the document unchanged
			gv, ga := gg.value(2)
			own := true // the value is the caller's own (not something Get handed out)
			if r.Intn(4) == 0 {
				// a value is a value: a container taken from the document itself (already canonical, nothing to
				// convert) is stored at a second place, and the step that follows writes below one of the two places
				for _, q := range []string{"a", "b", "a.b", "x"} {
					if c := d.Get(q); c != nil && q != p && !strings.HasPrefix(p, q+".") && !strings.HasPrefix(q, p+".") {
						if av := u.Alpha(c); av[0] == "obj" || av[0] == "arr" {
							gv, ga, own = c, canonToG(av), false
							for _, nx := range paths {
								if strings.HasPrefix(nx, p+".") || strings.HasPrefix(nx, q+".") {
									forced = nx
									break
								}
							}
							break
						}
					}
				}
			}
			d.Set(p, gv)
			// ... and the caller goes on using what it passed
			switch t := gv.(type) {
			case map[string]interface{}:
				if !own {
					break
				}
				for k := range t {
					t[k] = "scribble"
				}
				t["scribble"] = int64(1)
			case []interface{}:
				for k := range t {
					if own {
						t[k] = "scribble"
					}
				}
			}
			probes := make([]interface{}, 0)
			for _, q := range paths {
				has := 0
				if d.Has(q) {
					has = 1
				}
				probes = append(probes, []interface{}{B(q), has, u.Alpha(d.Get(q))})
			}
			fields := make([]interface{}, 0)
			for _, f := range d.Fields(false) {
				fields = append(fields, B(f))
			}
			steps = append(steps, E{"path": B(p), "g": ga, "probes": probes, "fields": fields})
		}
		emit(E{"kind": "docpath", "init": init, "steps": steps})
		stats["docpath"]++
	}
}

// canonToG describes a canonical value (as read from a document) in the vocabulary of Go values of CloverNorm
func canonToG(v V) V {
	switch v[0] {
	case "nil":
		return V{"nil"}
	case "num":
		return V{map[string]string{"i": "int", "u": "uint", "f": "float"}[v[2].(string)], v[1]}
	case "str":
		return V{"string", v[1]}
	case "bool":
		return V{"bool", v[1]}
	case "arr":
		el := make([]interface{}, 0)
		for _, e := range toList(v[1]) {
			el = append(el, canonToG(toV(e)))
		}
		return V{"slice", el}
	case "obj":
		ps := make([]interface{}, 0)
		for _, p := range toList(v[1]) {
			pl := toList(p)
			ps = append(ps, []interface{}{pl[0], canonToG(toV(pl[1]))})
		}
		return V{"map", 1, ps}
	}
	return v
}
