package main

// Abstract values (DESIGN.md section 4): gamma builds Go values from the abstract syntax the
// specification works on, alpha maps observed Go values back and is strict (exact Go type, exact
// bits, exact instant and zone offset); anything else becomes ["unknown", ...], which no
// specification state contains.
//
// Leaves that need arithmetic are ordinals into hand-ordered tables: the tables below are written
// in ascending mathematical order and nothing here ever compares two numbers or two instants.

import (
	"fmt"
	"math"
	"sort"
	"time"
)

type V = []interface{}

// ---------------------------------------------------------------- numbers

type numEntry struct {
	name string
	i    *int64
	u    *uint64
	f    *float64
	negz bool // float64 -0.0 is a further representation (only for zero)
}

func pi(x int64) *int64     { return &x }
func pu(x uint64) *uint64   { return &x }
func pf(x float64) *float64 { return &x }

// "general": finite numbers within 2^53 so that ints and floats are comparable with each other
// (C10 restricts int-vs-float comparisons to that range).
var numTableGeneral = []numEntry{
	{name: "-1e300", f: pf(-1e300)},
	{name: "-2^53", i: pi(-(1 << 53)), f: pf(-9007199254740992)},
	{name: "-1000000", i: pi(-1000000), f: pf(-1000000)},
	{name: "-2.5", f: pf(-2.5)},
	{name: "-1", i: pi(-1), f: pf(-1)},
	{name: "-0.5", f: pf(-0.5)},
	{name: "0", i: pi(0), u: pu(0), f: pf(0), negz: true},
	{name: "0.5", f: pf(0.5)},
	{name: "1", i: pi(1), u: pu(1), f: pf(1)},
	{name: "1.5", f: pf(1.5)},
	{name: "2", i: pi(2), u: pu(2), f: pf(2)},
	{name: "3", i: pi(3), u: pu(3), f: pf(3)},
	{name: "4", i: pi(4), u: pu(4), f: pf(4)},
	{name: "5", i: pi(5), u: pu(5), f: pf(5)},
	{name: "7", i: pi(7), u: pu(7), f: pf(7)},
	{name: "10", i: pi(10), u: pu(10), f: pf(10)},
	{name: "100", i: pi(100), u: pu(100), f: pf(100)},
	{name: "255", i: pi(255), u: pu(255), f: pf(255)},
	{name: "256", i: pi(256), u: pu(256), f: pf(256)},
	{name: "65536", i: pi(65536), u: pu(65536), f: pf(65536)},
	{name: "2^31", i: pi(1 << 31), u: pu(1 << 31), f: pf(2147483648)},
	{name: "2^53", i: pi(1 << 53), u: pu(1 << 53), f: pf(9007199254740992)},
	{name: "1e300", f: pf(1e300)},
}

// "extremes": integers only (no float representation), including the int64/uint64 extremes.
var numTableExtremes = []numEntry{
	{name: "MinInt64", i: pi(math.MinInt64)},
	{name: "MinInt64+1", i: pi(math.MinInt64 + 1)},
	{name: "-2^53-1", i: pi(-(1 << 53) - 1)},
	{name: "-2^31", i: pi(-(1 << 31))},
	{name: "-1", i: pi(-1)},
	{name: "0", i: pi(0), u: pu(0)},
	{name: "1", i: pi(1), u: pu(1)},
	{name: "2", i: pi(2), u: pu(2)},
	{name: "2^31", i: pi(1 << 31), u: pu(1 << 31)},
	{name: "2^53+1", i: pi(1<<53 + 1), u: pu(1<<53 + 1)},
	{name: "MaxInt64-1", i: pi(math.MaxInt64 - 1), u: pu(math.MaxInt64 - 1)},
	{name: "MaxInt64", i: pi(math.MaxInt64), u: pu(math.MaxInt64)},
	{name: "2^63", u: pu(1 << 63)},
	{name: "2^63+1", u: pu(1<<63 + 1)},
	{name: "MaxUint64-1", u: pu(math.MaxUint64 - 1)},
	{name: "MaxUint64", u: pu(math.MaxUint64)},
}

// "floats": floats only, including infinities, denormals and the float extremes, plus small ints.
var numTableFloats = []numEntry{
	{name: "-Inf", f: pf(math.Inf(-1))},
	{name: "-MaxFloat64", f: pf(-math.MaxFloat64)},
	{name: "-2^53", i: pi(-(1 << 53)), f: pf(-9007199254740992)},
	{name: "-1.5", f: pf(-1.5)},
	{name: "-1", i: pi(-1), f: pf(-1)},
	{name: "-SmallestNonzero", f: pf(-math.SmallestNonzeroFloat64)},
	{name: "0", i: pi(0), u: pu(0), f: pf(0), negz: true},
	{name: "SmallestNonzero", f: pf(math.SmallestNonzeroFloat64)},
	{name: "0.1", f: pf(0.1)},
	{name: "1", i: pi(1), u: pu(1), f: pf(1)},
	{name: "1+eps", f: pf(math.Nextafter(1, 2))},
	{name: "2", i: pi(2), u: pu(2), f: pf(2)},
	{name: "2^53-1", i: pi(1<<53 - 1), u: pu(1<<53 - 1), f: pf(9007199254740991)},
	{name: "2^53", i: pi(1 << 53), u: pu(1 << 53), f: pf(9007199254740992)},
	{name: "1e300", f: pf(1e300)},
	{name: "MaxFloat64", f: pf(math.MaxFloat64)},
	{name: "+Inf", f: pf(math.Inf(1))},
}

// ---------------------------------------------------------------- times

type timeEntry struct {
	name string
	t    time.Time // in UTC
}

func mustTime(s string) time.Time {
	t, err := time.Parse(time.RFC3339Nano, s)
	if err != nil {
		panic(err)
	}
	return t.UTC()
}

// ascending instants; the general table starts in 1970 (key order is claimed from 1970 on)
var timeTableGeneral = []timeEntry{
	{"epoch", mustTime("1970-01-01T00:00:00Z")},
	{"epoch+1ns", mustTime("1970-01-01T00:00:00.000000001Z")},
	{"1999", mustTime("1999-12-31T23:59:59.999999999Z")},
	{"2001", mustTime("2001-09-09T01:46:40Z")},
	{"2020", mustTime("2020-02-29T12:00:00.5Z")},
	{"2020+1us", mustTime("2020-02-29T12:00:00.500001Z")},
	{"2100", mustTime("2100-01-01T00:00:00Z")},
}

// the whole range representable as UnixNano (1677-09-21 .. 2262-04-11)
var timeTableWide = []timeEntry{
	{"1677", mustTime("1677-09-21T00:12:44Z")},
	{"1800", mustTime("1800-01-01T00:00:00Z")},
	{"1969", mustTime("1969-12-31T23:59:59.999999999Z")},
	{"epoch", mustTime("1970-01-01T00:00:00Z")},
	{"epoch+1ns", mustTime("1970-01-01T00:00:00.000000001Z")},
	{"2001", mustTime("2001-09-09T01:46:40Z")},
	{"2020", mustTime("2020-02-29T12:00:00.5Z")},
	{"2262", mustTime("2262-04-11T23:47:16Z")},
}

// instants far beyond what a count of nanoseconds since 1970 holds in 64 bits (signed: 1677 .. 2262,
// unsigned: .. 2554), down to year 1 and up to year 9999, with the boundaries themselves
var timeTableFar = []timeEntry{
	{"year1", mustTime("0001-01-01T00:00:00Z")},
	{"1500", mustTime("1500-06-01T00:00:00Z")},
	{"1969", mustTime("1969-12-31T23:59:59.999999999Z")},
	{"epoch", mustTime("1970-01-01T00:00:00Z")},
	{"2020", mustTime("2020-02-29T12:00:00.5Z")},
	{"maxint64ns", mustTime("2262-04-11T23:47:16.854775807Z")},
	{"maxint64ns+1", mustTime("2262-04-11T23:47:16.854775808Z")},
	{"2300", mustTime("2300-01-01T00:00:00Z")},
	{"maxuint64ns", mustTime("2554-07-21T23:34:33.709551615Z")},
	{"maxuint64ns+1", mustTime("2554-07-21T23:34:33.709551616Z")},
	{"3000", mustTime("3000-01-01T00:00:00Z")},
	{"9999", mustTime("9999-12-31T23:59:59.999999999Z")},
}

// zone offsets in seconds; index 0 is UTC.  The last entry (a sub-minute offset west of UTC) is only
// used by the witness of a known finding: generators draw from the first genZones entries.
var zoneTable = []int{0, 2 * 3600, -7 * 3600, 5*3600 + 45*60, 19*60 + 32, -(4*3600 + 56*60 + 2)}

const genZones = 5

// ---------------------------------------------------------------- the universe of one trace

type Universe struct {
	NumTable  string
	TimeTable string
	nums      []numEntry
	times     []timeEntry
	numRev    map[string]V // "i:<bits>" -> abstract
	timeStr   map[string]V // RFC 3339 text -> ["timestr", ord, zone]
	soonOrd   int          // position of the dynamic instant of the "soon" table (0: none)
}

func NewUniverse(numTable, timeTable string) *Universe {
	u := &Universe{NumTable: numTable, TimeTable: timeTable}
	switch numTable {
	case "general":
		u.nums = numTableGeneral
	case "extremes":
		u.nums = numTableExtremes
	case "floats":
		u.nums = numTableFloats
	default:
		panic("unknown number table " + numTable)
	}
	switch timeTable {
	case "general":
		u.times = timeTableGeneral
	case "wide":
		u.times = timeTableWide
	case "far":
		u.times = timeTableFar
	case "far1970": // the part of it for which index keys are claimed to follow the order
		u.times = timeTableFar[3:]
	case "soon":
		// the general table plus one instant that lies a moment ahead of the wall clock when it is first
		// used (an _expiresAt about to pass); it sorts after every past entry and before 2100
		u.times = append([]timeEntry{}, timeTableGeneral[:len(timeTableGeneral)-1]...)
		u.soonOrd = len(u.times)
		u.times = append(u.times, timeEntry{name: "soon"}, timeTableGeneral[len(timeTableGeneral)-1])
	default:
		panic("unknown time table " + timeTable)
	}
	u.numRev = map[string]V{}
	for ord, e := range u.nums {
		if e.i != nil {
			u.numRev[fmt.Sprintf("i:%d", *e.i)] = V{"num", ord, "i"}
		}
		if e.u != nil {
			u.numRev[fmt.Sprintf("u:%d", *e.u)] = V{"num", ord, "u"}
		}
		if e.f != nil {
			u.numRev[fmt.Sprintf("f:%x", math.Float64bits(*e.f))] = V{"num", ord, "f"}
		}
		if e.negz {
			u.numRev[fmt.Sprintf("f:%x", math.Float64bits(math.Copysign(0, -1)))] = V{"num", ord, "f-"}
		}
	}
	u.timeStr = map[string]V{}
	for ord := range u.times {
		for z := range zoneTable {
			t := u.timeOf(ord, z)
			b, err := t.MarshalJSON()
			if err != nil || len(b) < 2 {
				continue // no RFC 3339 text (year beyond 9999 in this zone)
			}
			u.timeStr[string(b[1:len(b)-1])] = V{"timestr", ord, z}
		}
	}
	return u
}

func (u *Universe) timeOf(ord, zone int) time.Time {
	if u.soonOrd > 0 && ord == u.soonOrd && u.times[ord].t.IsZero() {
		u.times[ord].t = time.Now().Add(1500 * time.Millisecond).Truncate(time.Millisecond).UTC()
	}
	t := u.times[ord].t
	if zone == 0 {
		return t.UTC()
	}
	return t.In(time.FixedZone("", zoneTable[zone]))
}

// Reps lists the representations available for a number ordinal.
func (u *Universe) Reps(ord int) []string {
	e := u.nums[ord]
	var r []string
	if e.i != nil {
		r = append(r, "i")
	}
	if e.u != nil {
		r = append(r, "u")
	}
	if e.f != nil {
		r = append(r, "f")
	}
	if e.negz {
		r = append(r, "f-")
	}
	return r
}

func toInt(x interface{}) int {
	switch n := x.(type) {
	case int:
		return n
	case int64:
		return int(n)
	case float64:
		return int(n)
	}
	panic(fmt.Sprintf("not an int: %T %v", x, x))
}

func toBytes(x interface{}) []byte {
	switch s := x.(type) {
	case []byte:
		return s
	case string:
		return []byte(s)
	case []int:
		b := make([]byte, len(s))
		for i, c := range s {
			b[i] = byte(c)
		}
		return b
	case []interface{}:
		b := make([]byte, len(s))
		for i, c := range s {
			b[i] = byte(toInt(c))
		}
		return b
	}
	panic(fmt.Sprintf("not bytes: %T", x))
}

// B encodes a byte string the way the specification sees it.
func B(s string) []int {
	b := make([]int, len(s))
	for i := 0; i < len(s); i++ {
		b[i] = int(s[i])
	}
	return b
}

func toV(x interface{}) V {
	switch v := x.(type) {
	case V:
		return v
	}
	panic(fmt.Sprintf("not an abstract value: %T %v", x, x))
}

func toList(x interface{}) []interface{} {
	switch v := x.(type) {
	case []interface{}:
		return v
	case []V:
		r := make([]interface{}, len(v))
		for i := range v {
			r[i] = v[i]
		}
		return r
	case nil:
		return nil
	}
	panic(fmt.Sprintf("not a list: %T %v", x, x))
}

// Gamma builds the canonical Go value of an abstract value.
func (u *Universe) Gamma(v V) interface{} {
	switch v[0].(string) {
	case "nil":
		return nil
	case "num":
		e := u.nums[toInt(v[1])]
		switch v[2].(string) {
		case "i":
			return *e.i
		case "u":
			return *e.u
		case "f":
			return *e.f
		case "f-":
			return math.Copysign(0, -1)
		}
	case "str":
		return string(toBytes(v[1]))
	case "pad":
		b := make([]byte, toInt(v[1]))
		for i := range b {
			b[i] = 'p'
		}
		return string(b)
	case "bool":
		return toInt(v[1]) == 1
	case "time":
		return u.timeOf(toInt(v[1]), toInt(v[2]))
	case "timestr":
		b, _ := u.timeOf(toInt(v[1]), toInt(v[2])).MarshalJSON()
		return string(b[1 : len(b)-1])
	case "arr":
		out := make([]interface{}, 0)
		for _, e := range toList(v[1]) {
			out = append(out, u.Gamma(toV(e)))
		}
		return out
	case "obj":
		out := map[string]interface{}{}
		for _, p := range toList(v[1]) {
			pair := toList(p)
			out[string(toBytes(pair[0]))] = u.Gamma(toV(pair[1]))
		}
		return out
	}
	panic(fmt.Sprintf("gamma: bad abstract value %v", v))
}

// GammaKind builds the Go value of a numeric literal in a given Go kind (C16: a literal yields the
// same result whatever Go numeric type it is supplied as).  ok=false when the number is not
// representable in that kind.
func (u *Universe) GammaKind(v V, kind string) (interface{}, bool) {
	if v[0].(string) != "num" || kind == "" {
		return u.Gamma(v), true
	}
	e := u.nums[toInt(v[1])]
	var iv int64
	var isInt bool
	if e.i != nil {
		iv, isInt = *e.i, true
	}
	switch kind {
	case "int":
		if isInt {
			return int(iv), true
		}
	case "int8":
		if isInt && iv >= math.MinInt8 && iv <= math.MaxInt8 {
			return int8(iv), true
		}
	case "int16":
		if isInt && iv >= math.MinInt16 && iv <= math.MaxInt16 {
			return int16(iv), true
		}
	case "int32":
		if isInt && iv >= math.MinInt32 && iv <= math.MaxInt32 {
			return int32(iv), true
		}
	case "int64":
		if isInt {
			return iv, true
		}
	case "uint":
		if e.u != nil {
			return uint(*e.u), true
		}
	case "uint8":
		if e.u != nil && *e.u <= math.MaxUint8 {
			return uint8(*e.u), true
		}
	case "uint16":
		if e.u != nil && *e.u <= math.MaxUint16 {
			return uint16(*e.u), true
		}
	case "uint32":
		if e.u != nil && *e.u <= math.MaxUint32 {
			return uint32(*e.u), true
		}
	case "uint64":
		if e.u != nil {
			return *e.u, true
		}
	case "float32":
		if e.f != nil && float64(float32(*e.f)) == *e.f {
			return float32(*e.f), true
		}
	case "float64":
		if e.f != nil {
			return *e.f, true
		}
	}
	return nil, false
}

var numKinds = []string{"int", "int8", "int16", "int32", "int64", "uint", "uint8", "uint16", "uint32", "uint64", "float32", "float64"}

func isPad(s string) bool {
	if len(s) < 16 {
		return false
	}
	for i := 0; i < len(s); i++ {
		if s[i] != 'p' {
			return false
		}
	}
	return true
}

// Alpha abstracts an observed Go value; strict.
func (u *Universe) Alpha(x interface{}) V { return u.alphaDepth(x, 0) }

// a value that contains itself (only a defect can build one) is "unknown", not a stack overflow of the harness
func (u *Universe) alphaDepth(x interface{}, depth int) V {
	if depth > 200 {
		return V{"unknown", "nested beyond 200 levels"}
	}
	switch v := x.(type) {
	case nil:
		return V{"nil"}
	case int64:
		if a, ok := u.numRev[fmt.Sprintf("i:%d", v)]; ok {
			return a
		}
		return V{"unknown", fmt.Sprintf("int64:%d", v)}
	case uint64:
		if a, ok := u.numRev[fmt.Sprintf("u:%d", v)]; ok {
			return a
		}
		return V{"unknown", fmt.Sprintf("uint64:%d", v)}
	case float64:
		if a, ok := u.numRev[fmt.Sprintf("f:%x", math.Float64bits(v))]; ok {
			return a
		}
		return V{"unknown", fmt.Sprintf("float64:%v", v)}
	case string:
		if isPad(v) {
			return V{"pad", len(v)}
		}
		if a, ok := u.timeStr[v]; ok {
			return a
		}
		return V{"str", B(v)}
	case bool:
		if v {
			return V{"bool", 1}
		}
		return V{"bool", 0}
	case time.Time:
		_, off := v.Zone()
		zone := -1
		for z, o := range zoneTable {
			if o == off {
				zone = z
			}
		}
		for ord, e := range u.times {
			if e.t.Equal(v) && zone >= 0 {
				return V{"time", ord, zone}
			}
		}
		return V{"unknown", "time:" + v.Format(time.RFC3339Nano)}
	case []interface{}:
		out := make([]interface{}, 0, len(v))
		for _, e := range v {
			out = append(out, u.alphaDepth(e, depth+1))
		}
		return V{"arr", out}
	case map[string]interface{}:
		keys := make([]string, 0, len(v))
		for k := range v {
			keys = append(keys, k)
		}
		sort.Strings(keys) // bytewise; TLC re-checks the order (WFValue)
		out := make([]interface{}, 0, len(v))
		for _, k := range keys {
			out = append(out, []interface{}{B(k), u.alphaDepth(v[k], depth+1)})
		}
		return V{"obj", out}
	}
	return V{"unknown", fmt.Sprintf("%T", x)}
}

// ---------------------------------------------------------------- abstract construction helpers

func ANil() V                { return V{"nil"} }
func ANum(ord int, rep string) V { return V{"num", ord, rep} }
func AStr(s string) V        { return V{"str", B(s)} }
func APad(n int) V           { return V{"pad", n} }
func ABool(b bool) V {
	if b {
		return V{"bool", 1}
	}
	return V{"bool", 0}
}
func ATime(ord, zone int) V { return V{"time", ord, zone} }
func AArr(elems ...V) V {
	out := make([]interface{}, 0, len(elems))
	for _, e := range elems {
		out = append(out, e)
	}
	return V{"arr", out}
}

// AObj builds an object from alternating key, value arguments; keys are sorted.
func AObj(kv ...interface{}) V {
	type pair struct {
		k string
		v V
	}
	var ps []pair
	for i := 0; i+1 < len(kv); i += 2 {
		ps = append(ps, pair{kv[i].(string), kv[i+1].(V)})
	}
	sort.Slice(ps, func(i, j int) bool { return ps[i].k < ps[j].k })
	out := make([]interface{}, 0, len(ps))
	for _, p := range ps {
		out = append(out, []interface{}{B(p.k), p.v})
	}
	return V{"obj", out}
}

// ObjSet returns a copy of obj with the top-level key set (kept sorted).
func ObjSet(obj V, key string, val V) V {
	type pair struct {
		k string
		v V
	}
	var ps []pair
	found := false
	for _, p := range toList(obj[1]) {
		pr := toList(p)
		k := string(toBytes(pr[0]))
		if k == key {
			ps = append(ps, pair{k, val})
			found = true
		} else {
			ps = append(ps, pair{k, toV(pr[1])})
		}
	}
	if !found {
		ps = append(ps, pair{key, val})
	}
	sort.Slice(ps, func(i, j int) bool { return ps[i].k < ps[j].k })
	out := make([]interface{}, 0, len(ps))
	for _, p := range ps {
		out = append(out, []interface{}{B(p.k), p.v})
	}
	return V{"obj", out}
}

// ObjGet returns the value of a top-level key.
func ObjGet(obj V, key string) (V, bool) {
	for _, p := range toList(obj[1]) {
		pr := toList(p)
		if string(toBytes(pr[0])) == key {
			return toV(pr[1]), true
		}
	}
	return nil, false
}

// Collection names travel through the traces as ASCII: TLC's JSON reader does not preserve
// non-ASCII characters (distinct names would collide), and the specification only needs equality.
// escName is injective: every byte outside [A-Za-z0-9 _.:-] becomes %XX.
func escName(n string) string {
	out := make([]byte, 0, len(n))
	for i := 0; i < len(n); i++ {
		c := n[i]
		switch {
		case c >= 'a' && c <= 'z', c >= 'A' && c <= 'Z', c >= '0' && c <= '9', c == ' ', c == '_', c == '.', c == ':', c == '-':
			out = append(out, c)
		default:
			out = append(out, []byte(fmt.Sprintf("%%%02X", c))...)
		}
	}
	return string(out)
}

func unescName(n string) string {
	out := make([]byte, 0, len(n))
	for i := 0; i < len(n); i++ {
		if n[i] == '%' && i+2 < len(n) {
			var b byte
			fmt.Sscanf(n[i+1:i+3], "%02X", &b)
			out = append(out, b)
			i += 2
		} else {
			out = append(out, n[i])
		}
	}
	return string(out)
}
