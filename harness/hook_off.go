//go:build !verif

package main

func planKindCounts() map[string]int { return map[string]int{} }
