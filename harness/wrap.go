package main

// store.Store decorators (DESIGN.md section 2): call counter, fault injector, abandon-at-k,
// scheduler gates and yield perturbation.  No change to /repo is needed: clover takes any
// store.Store through OpenWithStore.

import (
	"errors"
	"math/rand"
	"runtime"
	"sync"
	"time"

	"github.com/ostafen/clover/v2/store"
)

var errInjected = errors.New("harness: injected store failure")

// injector decides, for every fallible store call (begin, get, set, delete, item, commit), whether
// it fails.  mode "one": exactly the k-th call fails; mode "abandon": the k-th call and every
// later one fail (the transaction is abandoned, as if the process had died there).
type injector struct {
	mu      sync.Mutex
	armed   bool
	mode    string
	k       int
	count   int
	fired   bool
	kind    string
	kinds   []string // kinds of the calls seen since the last reset
	begins  int      // Begin(true) calls since reset
	commits int
	hook    func(kind string) // called before every store call (perturbation / gates)
	keylog  func(kind string, key []byte) // records the key of every get / set / delete / item / seek
}

func (in *injector) reset() {
	in.mu.Lock()
	in.armed, in.count, in.fired, in.kind, in.kinds, in.begins, in.commits = false, 0, false, "", nil, 0, 0
	in.mu.Unlock()
}

func (in *injector) arm(mode string, k int) {
	in.mu.Lock()
	in.armed, in.mode, in.k, in.count, in.fired, in.kind, in.kinds, in.begins, in.commits = true, mode, k, 0, false, "", nil, 0, 0
	in.mu.Unlock()
}

// step is called at every fallible store call; it reports whether the call must fail.
func (in *injector) step(kind string) bool {
	if in.hook != nil {
		in.hook(kind)
	}
	in.mu.Lock()
	defer in.mu.Unlock()
	in.count++
	in.kinds = append(in.kinds, kind)
	if !in.armed {
		return false
	}
	if in.mode == "abandon" && in.fired {
		return true
	}
	if in.count == in.k {
		in.fired = true
		in.kind = kind
		return true
	}
	return false
}

type wStore struct {
	inner store.Store
	in    *injector
}

func (s *wStore) Begin(update bool) (store.Tx, error) {
	kind := "begin"
	if update {
		kind = "beginw"
		s.in.mu.Lock()
		s.in.begins++
		s.in.mu.Unlock()
	}
	if s.in.step(kind) {
		return nil, errInjected
	}
	tx, err := s.inner.Begin(update)
	if err != nil {
		return nil, err
	}
	return &wTx{inner: tx, in: s.in}, nil
}

func (s *wStore) Close() error { return s.inner.Close() }

type wTx struct {
	inner store.Tx
	in    *injector
	dead  bool
}

func (in *injector) logKey(kind string, key []byte) {
	if in.keylog != nil {
		in.keylog(kind, append([]byte(nil), key...))
	}
}

func (t *wTx) Set(key, value []byte) error {
	t.in.logKey("set", key)
	if t.in.step("set") {
		return errInjected
	}
	return t.inner.Set(key, value)
}

func (t *wTx) Get(key []byte) ([]byte, error) {
	t.in.logKey("get", key)
	if t.in.step("get") {
		return nil, errInjected
	}
	return t.inner.Get(key)
}

func (t *wTx) Delete(key []byte) error {
	t.in.logKey("delete", key)
	if t.in.step("delete") {
		return errInjected
	}
	return t.inner.Delete(key)
}

func (t *wTx) Cursor(forward bool) (store.Cursor, error) {
	c, err := t.inner.Cursor(forward)
	if err != nil {
		return nil, err
	}
	return &wCursor{inner: c, in: t.in}, nil
}

func (t *wTx) Commit() error {
	t.in.mu.Lock()
	t.in.commits++
	t.in.mu.Unlock()
	if t.in.step("commit") {
		// a failing commit: nothing of the transaction may survive
		t.inner.Rollback()
		t.dead = true
		return errInjected
	}
	return t.inner.Commit()
}

func (t *wTx) Rollback() error {
	if t.dead {
		return nil
	}
	err := t.inner.Rollback()
	// the scheduler is perturbed after the end of a transaction as well: whatever the caller still does with
	// what it read (memory of the store it must not hold on to) then overlaps with the writers that follow
	if h := t.in.hook; h != nil {
		h("after-rollback")
		h("after-rollback")
		h("after-rollback")
	}
	return err
}

type wCursor struct {
	inner store.Cursor
	in    *injector
}

func (c *wCursor) Seek(key []byte) error {
	c.in.logKey("seek", key)
	return c.inner.Seek(key)
}
func (c *wCursor) Next()                 { c.inner.Next() }
func (c *wCursor) Valid() bool           { return c.inner.Valid() }
func (c *wCursor) Close() error          { return c.inner.Close() }
func (c *wCursor) Item() (store.Item, error) {
	if c.in.step("item") {
		return store.Item{}, errInjected
	}
	it, err := c.inner.Item()
	if err == nil {
		c.in.logKey("item", it.Key)
	}
	return it, err
}

// perturb returns a hook that yields or sleeps briefly at every store call.
func perturb(seed int64) func(string) {
	var mu sync.Mutex
	r := rand.New(rand.NewSource(seed))
	return func(kind string) {
		mu.Lock()
		k := r.Intn(10)
		long := kind == "after-rollback" && r.Intn(12) == 0
		mu.Unlock()
		if long {
			// long enough for other goroutines to commit a few transactions (a commit of bbolt is a disk sync)
			time.Sleep(12 * time.Millisecond)
			return
		}
		switch {
		case k < 5:
			runtime.Gosched()
		case k < 7:
			time.Sleep(time.Duration(1+k) * 10 * time.Microsecond)
		}
	}
}
