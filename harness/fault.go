package main

// C04 / C05: fault enumeration.  For every target operation the k-th fallible store call
// (begin, get, set, delete, cursor item, commit) is made to fail, for k = 1, 2, ... until the
// operation completes without reaching call k.  Since a failed operation must leave no trace, all
// positions of all targets run on the same database, with a follow-up write in between; the
// specification state only advances on the final, un-faulted execution.
//
// mode "one":     exactly the k-th call fails (C04)
// mode "abandon": the k-th call and everything after it fails, then the store is closed and
//                 reopened, as after a crash at that call (C05)

import (
	"bufio"
	"flag"
	"fmt"
	"os"
	"strings"
	"sync"

	"github.com/ostafen/clover/v2/store"
)

func init() {
	extraCommands["fault"] = cmdFault
}

func (g *Gen) faultScenario() (setup []E, targets []E) {
	main, fu, drop := "m", "fu", "d"
	g.colls = []string{main}
	for _, c := range []string{main, fu, drop} {
		g.created[c] = true
		g.live[c] = map[string]bool{}
		g.idx[c] = map[string]bool{}
		setup = append(setup, E{"op": "CreateCollection", "c": c})
	}
	if g.chance(0.8) {
		g.idx[main]["x"] = true
		setup = append(setup, E{"op": "CreateIndex", "c": main, "f": B("x")})
	}
	if g.chance(0.75) {
		g.idx[main]["xy"] = true
		setup = append(setup, E{"op": "CreateIndex", "c": main, "f": B("xy")})
	}
	docs := make([]interface{}, 0)
	for i := 0; i < 5; i++ {
		docs = append(docs, g.doc(AStr(g.ids[i])))
		g.noteInsert(main, g.ids[i])
	}
	setup = append(setup, E{"op": "Insert", "c": main, "docs": docs})
	setup = append(setup, E{"op": "Insert", "c": drop, "docs": []interface{}{g.jsonDoc(AStr(g.ids[0])), g.jsonDoc(AStr(g.ids[1]))}})
	setup = append(setup, E{"op": "CreateIndex", "c": drop, "f": B("x")})
	setup = append(setup, E{"op": "Export", "c": drop, "path": "exp.json"})
	g.setFocus(main)
	g.P.Invalid = 0

	lit := func() []interface{} { return []interface{}{"lit", g.smallNum()} }
	where := func(op string) []interface{} {
		return []interface{}{"where", []interface{}{"un", op, B("x"), lit()}}
	}
	sortX := []interface{}{"sort", []interface{}{[]interface{}{B("x"), []int{1, -1}[g.r.Intn(2)]}, []interface{}{B("_id"), 1}}}
	free := g.freeIds(main)
	all := []E{
		{"op": "Insert", "c": main, "docs": []interface{}{g.doc(AStr(free[0])), g.doc(AStr(free[1])), g.doc(AStr(free[2]))}},
		// an offending document at a random position of the batch
		{"op": "Insert", "c": main, "docs": g.offendingBatch(main, free[3:6])},
		{"op": "Save", "c": main, "docs": []interface{}{g.doc(AStr(g.ids[1]))}},
		{"op": "ReplaceById", "c": main, "id": B(g.ids[2]), "docs": []interface{}{g.doc(AStr(g.ids[2]))}},
		{"op": "UpdateById", "c": main, "id": B(g.ids[3]), "upd": []interface{}{"set", B("x"), g.smallNum()}},
		{"op": "UpdateById", "c": main, "id": B(g.ids[3]), "upd": []interface{}{"setInPlace", B("xy"), g.smallNum()}},
		{"op": "Update", "c": main, "q": []interface{}{where("gte")}, "upd": g.updateMap()},
		{"op": "Update", "c": main, "q": []interface{}{where("lte"), sortX, []interface{}{"skip", 1}, []interface{}{"limit", 2}}, "upd": g.updateMap()},
		{"op": "UpdateFunc", "c": main, "q": []interface{}{sortX}, "upd": []interface{}{"setInPlace", B("x"), g.smallNum()}},
		{"op": "UpdateFunc", "c": main, "q": []interface{}{where("gt")}, "upd": []interface{}{"append", B("arr"), g.smallNum()}},
		{"op": "UpdateFunc", "c": main, "q": []interface{}{sortX, []interface{}{"limit", 2}}, "upd": []interface{}{"nil"}},
		{"op": "Delete", "c": main, "q": []interface{}{where("eq")}},
		{"op": "Delete", "c": main, "q": []interface{}{where("gte"), sortX, []interface{}{"limit", 1}}},
		{"op": "DeleteById", "c": main, "id": B(g.ids[4])},
		{"op": "CreateCollection", "c": "newc"},
		{"op": "CreateIndex", "c": main, "f": B("s")},
		{"op": "DropIndex", "c": drop, "f": B("x")},
		{"op": "DropIndex", "c": main, "f": B("xy")},
		{"op": "CreateIndex", "c": main, "f": B("xy")},
		{"op": "Import", "c": "imp", "path": "exp.json"},
		{"op": "CreateByQuery", "name": "byq", "c": main, "q": []interface{}{where("gte")}},
		{"op": "DropCollection", "c": drop},
		{"op": "FindAll", "c": main, "q": []interface{}{where("gte"), sortX}},
		{"op": "FindAll", "c": main, "q": []interface{}{[]interface{}{"sort", []interface{}{[]interface{}{B("s"), 1}}}}},
		{"op": "Count", "c": main, "q": []interface{}{}},
		{"op": "Count", "c": main, "q": []interface{}{where("lt")}},
		{"op": "ForEach", "c": main, "q": []interface{}{sortX}, "j": 2},
		{"op": "FindById", "c": main, "id": B(g.ids[0])},
		{"op": "Exists", "c": main, "q": []interface{}{where("gte")}},
		{"op": "HasCollection", "c": main},
		{"op": "ListCollections"},
		{"op": "ListIndexes", "c": main},
		{"op": "HasIndex", "c": main, "f": B("x")},
		{"op": "Export", "c": main, "path": "exp2.json"},
	}
	return setup, all
}

func (g *Gen) offendingBatch(c string, free []string) []interface{} {
	batch := []interface{}{g.doc(AStr(free[0])), g.doc(AStr(free[1])), g.doc(AStr(free[2]))}
	pos := g.r.Intn(3)
	switch g.r.Intn(3) {
	case 0:
		batch[pos] = g.doc(AStr(g.ids[0])) // already stored
	case 1:
		batch[pos] = g.doc(AStr("not-a-uuid"))
	case 2:
		if pos == 0 {
			pos = 1
		}
		batch[pos] = g.doc(AStr(free[0])) // duplicate of an earlier document of the batch
	}
	return batch
}

func cmdFault(args []string) {
	fs := flag.NewFlagSet("fault", flag.ExitOnError)
	seed := fs.Int64("seed", 1, "seed")
	n := fs.Int("n", 3, "scenarios")
	mode := fs.String("mode", "one", "one|abandon")
	backends := fs.String("backends", "rotate", "backend per scenario")
	out := fs.String("out", "fault.ndjson", "output")
	statsOut := fs.String("stats", "", "stats json")
	perTarget := fs.Int("targets", 10, "targets per scenario (0 = all)")
	maxK := fs.Int("maxk", 400, "give up after this many positions for one target")
	fuEvery := fs.Int("followup", 2, "follow-up write after every i-th faulted call")
	par := fs.Int("par", 8, "parallel scenarios")
	reopenN := fs.Int("reopen", 0, "mode one: close and reopen the store after every n-th follow-up write (what a failed call left in the handle must not reach the disk)")
	huge := fs.Bool("huge", false, "only one target: an insert batch beyond badger's transaction size limit, faulted at every 23rd call")
	fs.Parse(args)
	faultHuge = *huge
	faultReopen = *reopenN

	type result struct {
		lines [][]byte
		stats map[string]int
	}
	results := make([]result, *n)
	var wg sync.WaitGroup
	sem := make(chan struct{}, *par)
	for i := 0; i < *n; i++ {
		wg.Add(1)
		sem <- struct{}{}
		go func(i int) {
			defer wg.Done()
			defer func() { <-sem }()
			tseed := *seed*1000003 + int64(i)
			var be string
			if *backends == "rotate" {
				pool := []string{"bolt", "badger", "badgermem"}
				if *mode == "abandon" {
					pool = []string{"bolt", "badger"}
				}
				be = pool[int(tseed)%len(pool)]
			} else {
				bs := strings.Split(*backends, ",")
				be = bs[i%len(bs)]
			}
			results[i].lines, results[i].stats = runFaultScenario(tseed, be, *mode, *perTarget, *maxK, *fuEvery)
		}(i)
	}
	wg.Wait()
	f, err := os.Create(*out)
	if err != nil {
		panic(err)
	}
	w := bufio.NewWriterSize(f, 1<<20)
	total := map[string]int{}
	events := 0
	for _, r := range results {
		for _, l := range r.lines {
			w.Write(l)
			events++
		}
		for k, v := range r.stats {
			total[k] += v
		}
	}
	w.Flush()
	f.Close()
	if *statsOut != "" {
		os.WriteFile(*statsOut, marshalLine(E{"traces": *n, "events": events, "outcomes": total, "plan_kinds": planKindCounts()}), 0o644)
	}
	fmt.Printf("fault: mode=%s seed=%d scenarios=%d events=%d -> %s\n", *mode, *seed, *n, events, *out)
}

var faultHuge bool
var faultReopen int

func runFaultScenario(seed int64, be, mode string, perTarget, maxK, fuEvery int) ([][]byte, map[string]int) {
	p := &Profile{Name: "fault", NumTable: "general", TimeTable: "general", Colls: 1, MaxDocs: 12, Indexes: true, W: weights(nil)}
	g := NewGen(seed, p)
	setup, targets := g.faultScenario()
	stride := 1
	if faultHuge {
		// about 11 MB in one call: a store that refuses or splits the transaction must still leave
		// nothing of an abandoned or failed call behind
		docs := make([]interface{}, 0)
		for i := 0; i < 170; i++ {
			docs = append(docs, AObj("_id", AStr(bulkId(500+i)), "x", ANum(g.smallN[i%len(g.smallN)], "i"), "p", APad(65536)))
		}
		targets = []E{{"op": "Insert", "c": "m", "docs": docs}}
		perTarget = 0
		stride = 23
	}
	if perTarget > 0 && perTarget < len(targets) {
		// the catalog operations are always among the targets, the rest is drawn
		var perm []int
		taken := map[int]bool{}
		for i, t := range targets {
			switch t["op"] {
			case "DropIndex", "CreateIndex", "DropCollection":
				perm = append(perm, i)
				taken[i] = true
			}
		}
		for _, i := range g.r.Perm(len(targets)) {
			if len(perm) >= perTarget+3 {
				break
			}
			if !taken[i] {
				perm = append(perm, i)
			}
		}
		sortInts(perm)
		var sel []E
		for _, i := range perm {
			sel = append(sel, targets[i])
		}
		targets = sel
	}
	dir, err := os.MkdirTemp(scratchBase(), "verif-fault-")
	if err != nil {
		panic(err)
	}
	defer os.RemoveAll(dir)
	in := &injector{}
	b, err := NewBackend(be, dir, func(s store.Store) store.Store { return &wStore{inner: s, in: in} })
	if err != nil {
		panic(err)
	}
	b.in = in
	defer b.Destroy()
	x := &Exec{U: g.U, FileDir: dir, Backends: []*Backend{b}}
	stats := map[string]int{}
	var lines [][]byte
	lines = append(lines, marshalLine(E{"op": "Reset", "profile": "fault-" + mode, "seed": seed, "numTable": "general", "timeTable": "general",
		"backends": be, "runs": []interface{}{E{"be": "-", "res": E{"st": "ok", "err": ""}}}}))
	note := func(line E) {
		lines = append(lines, marshalLine(line))
		res := toList(line["runs"])[0].(E)["res"].(E)
		key := fmt.Sprintf("%v/%v", line["op"], res["st"])
		if f, ok := line["fault"].(E); ok && toInt(f["fired"]) == 1 {
			key = fmt.Sprintf("%v/fault@%v/%v", line["op"], f["kind"], res["st"])
		}
		stats[key]++
	}
	for _, e := range setup {
		note(x.Step(e, true))
	}
	fuN := 0
	followup := func() {
		fuN++
		d := AObj("_id", AStr(bulkId(fuN)), "n", AStr(fmt.Sprintf("fu%d", fuN)))
		note(x.Step(E{"op": "Insert", "c": "fu", "docs": []interface{}{d}}, true))
		if faultReopen > 0 && fuN%faultReopen == 0 && mode == "one" {
			// an acknowledged write on the main collection too, then the store is closed and reopened
			d2 := AObj("_id", AStr(bulkId(1000+fuN)), "x", g.smallNum(), "xy", g.smallNum())
			note(x.Step(E{"op": "Insert", "c": "m", "docs": []interface{}{d2}}, true))
			note(x.Step(E{"op": "Reopen"}, true))
		}
	}
	// what the handle itself answers after a failed call (its view must be the stored one)
	probes := []E{{"op": "ListIndexes", "c": "m"}, {"op": "Count", "c": "m", "q": []interface{}{}},
		{"op": "FindAll", "c": "m", "q": []interface{}{[]interface{}{"sort", []interface{}{[]interface{}{B("x"), 1}, []interface{}{B("_id"), 1}}}}},
		{"op": "ListIndexes", "c": "d"}, {"op": "HasIndex", "c": "m", "f": B("xy")}, {"op": "ListCollections"},
		{"op": "FindAll", "c": "d", "q": []interface{}{[]interface{}{"where", []interface{}{"un", "exists", B("x"), []interface{}{"none"}}}}}}
	probeN := 0
	probe := func() {
		for i := 0; i < 2; i++ {
			e := E{}
			for kk, v := range probes[probeN%len(probes)] {
				e[kk] = v
			}
			probeN++
			note(x.Step(e, false))
		}
	}
	for _, t := range targets {
		for k := 1 + int(seed)%stride; k <= maxK*stride && !b.dead; k += stride {
			e := E{}
			for kk, v := range t {
				e[kk] = v
			}
			e["fault"] = E{"mode": mode, "k": k}
			line := x.Step(e, true)
			fired := toInt(line["fault"].(E)["fired"]) == 1
			if !fired {
				delete(line, "fault") // the un-faulted execution: an ordinary event
			}
			note(line)
			if !fired {
				break
			}
			if mode == "abandon" {
				note(x.Step(E{"op": "Reopen"}, true))
			}
			probe()
			if (k/stride)%fuEvery == 0 || line["fault"].(E)["kind"] == "commit" {
				followup()
			}
		}
		if b.dead {
			break
		}
		followup()
	}
	if !b.dead {
		// after all those failed calls the handle still closes (a lock or a transaction leaked on an
		// error path would make Close wait forever)
		note(x.Step(E{"op": "Close"}, false))
	}
	return lines, stats
}

func sortInts(a []int) {
	for i := 1; i < len(a); i++ {
		for j := i; j > 0 && a[j] < a[j-1]; j-- {
			a[j], a[j-1] = a[j-1], a[j]
		}
	}
}
