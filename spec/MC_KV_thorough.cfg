SPECIFICATION Spec
CONSTANTS
  Alpha = {99, 100, 105, 58}
  MaxName = 3
  MaxField = 2
  IdAlpha = {100, 58, 59}
  IdLens = {1, 2}
  RestAlpha = {100, 58, 59}
  MaxRest = 3
  Codes <- CodesA
  FixedLen = 2
INVARIANTS Layout Split
CHECK_DEADLOCK FALSE
