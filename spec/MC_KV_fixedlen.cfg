SPECIFICATION Spec
CONSTANTS
  Alpha = {99}
  MaxName = 1
  MaxField = 1
  IdAlpha = {100, 58}
  IdLens = {1, 2}
  RestAlpha = {100}
  MaxRest = 1
  Codes <- CodesA
  FixedLen = 2
INVARIANTS FixedSplit
CHECK_DEADLOCK FALSE
