---------------------------- MODULE CloverStore ----------------------------
(***************************************************************************)
(* L2 (part): the contract every store adapter gives to clover (C15):      *)
(* an ordered key space with transactions and cursors.                     *)
(*                                                                         *)
(* kv: a sequence of <<key, value>> (the committed content); pending: the  *)
(* writes made earlier inside the observing transaction, <<"set", k, v>> / *)
(* <<"del", k>>.  A cursor opened afterwards sees committed + pending.     *)
(***************************************************************************)
EXTENDS CloverValues

RECURSIVE ApplyWrites(_, _, _)
KvHas(kv, k) == \E i \in DOMAIN kv : kv[i][1] = k
KvPut(kv, k, v) == IF KvHas(kv, k) THEN [i \in DOMAIN kv |-> IF kv[i][1] = k THEN <<k, v>> ELSE kv[i]]
                   ELSE Append(kv, <<k, v>>)
KvDel(kv, k) == SelectSeq(kv, LAMBDA p : p[1] # k)
ApplyWrites(kv, ws, i) ==
    IF i > Len(ws) THEN kv
    ELSE ApplyWrites(IF ws[i][1] = "set" THEN KvPut(kv, ws[i][2], ws[i][3]) ELSE KvDel(kv, ws[i][2]), ws, i + 1)

Visible(kv, pending) == ApplyWrites(kv, pending, 1)

(* A forward seek lands on the first key at or after the target, a reverse *)
(* seek on the last key at or before it; iteration then visits each key    *)
(* once in order; keys with empty values are visible.                      *)
CursorWalk(kv, pending, forward, target) ==
    LET vis == Visible(kv, pending)
        sel == SelectSeq(vis, LAMBDA p : IF forward THEN BytesCmp(p[1], target) >= 0
                                                    ELSE BytesCmp(p[1], target) <= 0)
        asc == SortSeq(sel, LAMBDA a, b : BytesCmp(a[1], b[1]) < 0)
    IN IF forward THEN asc ELSE [i \in DOMAIN asc |-> asc[Len(asc) + 1 - i]]

GetOf(kv, pending, k) ==
    LET vis == Visible(kv, pending) IN
    IF KvHas(vis, k) THEN <<1, vis[CHOOSE i \in DOMAIN vis : vis[i][1] = k][2]>> ELSE <<0, <<>> >>

=============================================================================
