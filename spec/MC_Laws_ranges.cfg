SPECIFICATION Spec
CONSTANT Family = "ranges"
INVARIANTS ValuesLaws CriteriaLaws RangeLaws NormLaws PathLaws
CHECK_DEADLOCK FALSE
