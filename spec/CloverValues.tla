--------------------------- MODULE CloverValues ---------------------------
(***************************************************************************)
(* L0: clover's value algebra.                                             *)
(*                                                                         *)
(* Values are tagged tuples (DESIGN.md section 4):                         *)
(*   <<"nil">>                                                             *)
(*   <<"num", ord, rep>>    ord = position in the harness' hand-ordered    *)
(*                          number table, rep \in {"i","u","f","f-"}       *)
(*   <<"str", bytes>>       bytes = sequence of 0..255                     *)
(*   <<"pad", n>>           the string made of n bytes 'p' (0x70); only a  *)
(*                          compact notation used by the bulk drivers      *)
(*   <<"obj", pairs>>       pairs = sequence of <<keybytes, value>>,       *)
(*                          strictly ascending by key                      *)
(*   <<"arr", elems>>                                                      *)
(*   <<"bool", 0|1>>                                                       *)
(*   <<"time", ord, zone>>  ord = position in the instant table            *)
(* Anything else (<<"unknown", goType>>) is not a value: no spec state     *)
(* contains it, so an observation carrying it can never conform.           *)
(***************************************************************************)
EXTENDS Integers, Sequences, FiniteSets, TLC

Nil    == <<"nil">>
Absent == <<"absent">>          \* result of a failed path lookup; not a value

IntCmp(a, b) == IF a < b THEN -1 ELSE IF a > b THEN 1 ELSE 0
Sgn(x)       == IntCmp(x, 0)
Min2(a, b)   == IF a < b THEN a ELSE b
Max2(a, b)   == IF a > b THEN a ELSE b

RECURSIVE BytesCmpFrom(_, _, _)
BytesCmpFrom(s, t, i) ==
    IF i > Len(s) THEN (IF i > Len(t) THEN 0 ELSE -1)
    ELSE IF i > Len(t) THEN 1
    ELSE IF s[i] # t[i] THEN IntCmp(s[i], t[i])
    ELSE BytesCmpFrom(s, t, i + 1)

\* bytewise lexicographic order (strings.Compare / bytes.Compare)
BytesCmp(s, t) == BytesCmpFrom(s, t, 1)

Tags == {"nil", "num", "str", "pad", "obj", "arr", "bool", "time"}

\* nil < number < string < object < array < bool < time
Rank(v) ==
    CASE v[1] = "nil"  -> 0
      [] v[1] = "num"  -> 1
      [] v[1] = "str"  -> 2
      [] v[1] = "pad"  -> 2
      [] v[1] = "obj"  -> 3
      [] v[1] = "arr"  -> 4
      [] v[1] = "bool" -> 5
      [] v[1] = "time" -> 6

StrBytes(v) == IF v[1] = "pad" THEN [i \in 1..v[2] |-> 112] ELSE v[2]

RECURSIVE Cmp(_, _), CmpArrFrom(_, _, _), CmpObjFrom(_, _, _)

(* The total preorder behind every filter, sort and index (C10).           *)
Cmp(v, w) ==
    IF Rank(v) # Rank(w) THEN IntCmp(Rank(v), Rank(w))
    ELSE CASE v[1] = "nil"  -> 0
           [] v[1] = "num"  -> IntCmp(v[2], w[2])      \* rep is ignored
           \* two paddings: one is a prefix of the other
           [] v[1] = "pad" /\ w[1] = "pad" -> IntCmp(v[2], w[2])
           [] v[1] \in {"str", "pad"} -> BytesCmp(StrBytes(v), StrBytes(w))
           [] v[1] = "bool" -> IntCmp(v[2], w[2])
           [] v[1] = "time" -> IntCmp(v[2], w[2])      \* zone is ignored
           [] v[1] = "arr"  -> CmpArrFrom(v[2], w[2], 1)
           [] v[1] = "obj"  -> CmpObjFrom(v[2], w[2], 1)

\* elementwise, then by length
CmpArrFrom(s, t, i) ==
    IF i > Len(s) \/ i > Len(t) THEN IntCmp(Len(s), Len(t))
    ELSE LET c == Cmp(s[i], t[i]) IN
         IF c # 0 THEN c ELSE CmpArrFrom(s, t, i + 1)

\* sorted (key, value) pairs, then by size
CmpObjFrom(p, q, i) ==
    IF i > Len(p) \/ i > Len(q) THEN IntCmp(Len(p), Len(q))
    ELSE LET kc == BytesCmp(p[i][1], q[i][1]) IN
         IF kc # 0 THEN kc
         ELSE LET c == Cmp(p[i][2], q[i][2]) IN
              IF c # 0 THEN c ELSE CmpObjFrom(p, q, i + 1)

(* Well-formedness of an (observed or generated) value: known tag, object  *)
(* keys strictly ascending.  Used as a guard on everything read from a     *)
(* trace: the harness sorts object keys, TLC checks that it did.           *)
RECURSIVE WFValue(_)
WFValue(v) ==
    /\ v[1] \in Tags
    /\ CASE v[1] = "arr" -> \A i \in DOMAIN v[2] : WFValue(v[2][i])
         [] v[1] = "obj" ->
              /\ \A i \in DOMAIN v[2] : WFValue(v[2][i][2])
              /\ \A i \in 1..(Len(v[2]) - 1) : BytesCmp(v[2][i][1], v[2][i + 1][1]) < 0
         [] OTHER -> TRUE

(* Laws (C10), stated over a finite universe U by the MC configs.          *)
CmpReflexive(U)     == \A v \in U : Cmp(v, v) = 0
CmpAntisymmetric(U) == \A v, w \in U : Cmp(v, w) = -Cmp(w, v)
CmpTransitive(U)    == \A u, v, w \in U :
                          (Cmp(u, v) <= 0 /\ Cmp(v, w) <= 0) => Cmp(u, w) <= 0
CmpRanked(U)        == \A v, w \in U : Rank(v) < Rank(w) => Cmp(v, w) < 0

=============================================================================
