SPECIFICATION Spec
CONSTANTS
  Workers = {1, 2, 3}
  Closer = 0
  Design = "flag"
  Txs = 2
INVARIANTS TypeOK NoUseAfterClose
