------------------------------- MODULE MC_Plan -------------------------------
(***************************************************************************)
(* Exhaustive small-scope check of the planner model (CloverPlan.tla):     *)
(* every criteria tree of the pools below x every index set; one initial   *)
(* state per case (see MC_Laws.tla for the style).                         *)
(***************************************************************************)
EXTENDS CloverPlan

CONSTANT Family      \* "plan" | "planq"

VARIABLE case
Next == UNCHANGED case
vars == <<case>>

N(o, r) == <<"num", o, r>>
S(b)    == <<"str", b>>
FA == <<97>>
FB == <<98>>

\* planner: trees over comparisons / In / Exists on an indexed field (a) and another field (b)
PLits   == { Nil, N(6, "i"), N(8, "f") }
PLeaves == { Un(op, FA, Lit(v)) : op \in {"eq", "gt", "gte", "lt", "lte"}, v \in PLits }
           \cup { Un("eq", FB, Lit(N(8, "i"))), Un("gt", FB, Lit(N(6, "i"))) }
           \cup { Un("in", FA, <<"list", <<Lit(N(6, "i")), Lit(Nil)>> >>), Un("exists", FA, NoCrit),
                  Un("eq", FA, <<"ref", FB>>), Un("lt", FA, <<"dollar", FB>>) }
PLevel1 == PLeaves \cup { Not(c) : c \in PLeaves } \cup { Not(Not(c)) : c \in PLeaves }
           \cup { Not(Not(Not(c))) : c \in PLeaves }
PTrees  == PLevel1
           \cup { And(a, b) : a, b \in PLevel1 } \cup { Or(a, b) : a, b \in PLevel1 }
           \cup { Not(And(a, b)) : a, b \in PLeaves } \cup { Not(Or(a, b)) : a, b \in PLeaves }
           \cup { And(a, And(b, c)) : a, b, c \in { Un(op, FA, Lit(v)) : op \in {"eq", "gt", "lte"}, v \in PLits } }
           \cup { And(Or(a, b), c) : a, b, c \in { Un(op, FA, Lit(v)) : op \in {"eq", "gt", "lte"}, v \in PLits } }
PTreesQ == PLevel1 \cup { And(a, b) : a \in PLevel1, b \in PLeaves } \cup { And(b, a) : a \in PLevel1, b \in PLeaves }
           \cup { Or(a, b) : a, b \in PLeaves }
PDocs   == { EmptyObj } \cup { <<"obj", << <<FA, v>> >> >> : v \in {Nil, N(4, "i"), N(6, "f"), N(7, "f"), N(8, "i"), N(10, "i"), S(<<97>>)} }
           \cup { <<"obj", << <<FA, v>>, <<FB, w>> >> >> : v \in {Nil, N(6, "i"), N(8, "i")}, w \in {N(6, "i"), N(8, "f"), N(10, "i")} }
           \cup { <<"obj", << <<FB, N(8, "i")>> >> >> }
PIdx    == { {FA}, {FA, FB} }


Cases == IF Family = "plan" THEN PTrees \X PIdx ELSE PTreesQ \X PIdx

Init == case \in Cases
Spec == Init /\ [][Next]_vars

\* C02: the range derived for the selected index field contains the value of every document
\* satisfying the *original* criteria and is not reported empty.  (The pushed-down tree itself
\* is only used for planning: it differs from the original on documents lacking the field when
\* the literal is nil - Not(Eq(a, nil)) holds for them, Lt(a, nil) Or Gt(a, nil) does not - which
\* is harmless because a disjunction yields no range.)
PlanLaws ==
    Family \in {"plan", "planq"} =>
       LET c == case[1] F == case[2] IN
       \A d \in PDocs :
          /\ RangeSuperset(c, F, d)
          /\ ((Has(d, FA) /\ Has(d, FB)) => NFSound(c, d))


=============================================================================
