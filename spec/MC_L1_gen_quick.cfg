SPECIFICATION MCSpec
CONSTANTS
  CollPool <- OneColl
  NIds = 2
  XVals <- XValsTiny
  YVals <- YValsTiny
  LitPool <- LitTiny
  IdxFields <- IdxBoth
  QueryLevel = 1
  Emit = TRUE
  MaxHist = 6
VIEW MCView
CONSTRAINT HistBound
INVARIANTS MCTypeOK MCInv EmitState
CHECK_DEADLOCK FALSE
