SPECIFICATION MCSpec
CONSTANTS
  CollPool <- OneColl
  NIds = 2
  XVals <- XValsNil
  YVals <- YValsTiny
  LitPool <- LitNil
  IdxFields <- IdxBoth
  QueryLevel = 2
  Emit = TRUE
  MaxHist = 6
VIEW MCView
CONSTRAINT HistBound
INVARIANTS MCTypeOK MCInv EmitState
CHECK_DEADLOCK FALSE
