----------------------------- MODULE CloverConc -----------------------------
(***************************************************************************)
(* L3: concurrent use of one clover handle, at the level where atomicity   *)
(* is decided: store transactions.  Every public operation is one store    *)
(* transaction (C05); under snapshot isolation nothing that happens        *)
(* between Begin and Commit is observable by others, so an operation is    *)
(* two steps - Start (take the snapshot) and Finish (compute reads, writes *)
(* and result on the snapshot, then commit or fail) - and TLC explores     *)
(* every interleaving of the Start / Finish steps of a few goroutines.     *)
(*                                                                         *)
(* Store semantics (parameter Backend):                                    *)
(*   "bolt"    one update transaction at a time (Start of a writer waits)  *)
(*   "badger"  optimistic: a writer fails at commit iff a key it *read* was *)
(*             written by a transaction committed after its snapshot; keys *)
(*             inserted by others into a scanned range (phantoms) are not   *)
(*             seen and not detected                                       *)
(*                                                                         *)
(* Keys: <<"M">> collection metadata, <<"D", id>> document, <<"E", v, id>> *)
(* index entry.  The reads and writes of each operation follow the code    *)
(* after the repairs (db.go); MetaAlways selects the pre-repair variant    *)
(* of bulk writers (metadata rewritten only when something was deleted),   *)
(* for which TLC exhibits the write-skew counterexample.                   *)
(*                                                                         *)
(* Property Linearizable (C07): when all goroutines are done there is a     *)
(* sequential order of the operations, consistent with real time (an       *)
(* operation that finished before another started comes first), which      *)
(* from the initial state yields every observed result and the final       *)
(* committed state; operations rejected by the store have no effect.       *)
(* (CommitOrderSerializable, the stronger statement that the commit point  *)
(* is always a linearization point, does NOT hold under snapshot           *)
(* isolation - an operation whose selection was empty in its snapshot is   *)
(* linearized at the snapshot instant - and is kept only as a named        *)
(* formula.)                                                               *)
(***************************************************************************)
EXTENDS Integers, Sequences, FiniteSets, TLC

CONSTANTS Backend,      \* "bolt" | "badger"
          MetaAlways,   \* bulk writers always rewrite the metadata (the repaired code)
          PointMeta,    \* UpdateById rewrites the metadata too (the repaired code)
          Gs,           \* goroutines
          IdSet, Vals,  \* document ids, values of the field x
          WithReads     \* the operation pool also holds the read operations Find and Count

VARIABLES db,     \* committed state: [idx, size, docs (id -> value), ents (set of <<v, id>>)]
          log,    \* sequence of the key sets written by committed transactions
          tx,     \* goroutine -> [st : "idle" | "run" | "done", snap, start]
          bad,    \* a committed operation was not serializable at its commit point
          progs,  \* goroutine -> the operation it runs (chosen initially, then fixed)
          db0,    \* the initial committed state
          clock   \* global step counter (real time)

vars == <<db, log, tx, bad, progs, db0, clock>>

None == 0     \* "no document" (values of x are positive integers)

InitDb == [idx |-> FALSE, size |-> 0, docs |-> [i \in IdSet |-> None], ents |-> {}]

Present(s) == {i \in IdSet : s.docs[i] # None}

(* reads, writes, next state and result of an operation evaluated on state s *)
Sel(s, a) == {i \in Present(s) : s.docs[i] = a}

\* an index scan of the value a reads, besides the entries of a, the first entry past them (that is
\* how it notices the end of its range)
PastRange(s, a) ==
    LET later == {e \in s.ents : e[1] > a} IN
    IF later = {} THEN {}
    ELSE LET m == CHOOSE e \in later : \A f \in later : e[1] < f[1] \/ (e[1] = f[1] /\ e[2] <= f[2])
         IN {<<"E", m[1], m[2]>>}

Effect(op, s) ==
    CASE op[1] = "Insert" ->          \* <<"Insert", id, v>>
            LET id == op[2] v == op[3] IN
            IF s.docs[id] # None
            THEN [reads |-> {<<"M">>, <<"D", id>>}, writes |-> {}, new |-> s, res |-> "dup"]
            ELSE [reads |-> {<<"M">>, <<"D", id>>},
                  writes |-> {<<"M">>, <<"D", id>>} \cup (IF s.idx THEN {<<"E", v, id>>} ELSE {}),
                  new |-> [s EXCEPT !.docs[id] = v, !.size = @ + 1,
                                    !.ents = IF s.idx THEN @ \cup {<<v, id>>} ELSE @],
                  res |-> "ok"]
      [] op[1] = "UpdateById" ->      \* <<"UpdateById", id, v>>
            LET id == op[2] v == op[3] IN
            IF s.docs[id] = None
            THEN [reads |-> {<<"M">>, <<"D", id>>}, writes |-> {}, new |-> s, res |-> "nodoc"]
            ELSE [reads |-> {<<"M">>, <<"D", id>>},
                  writes |-> {<<"D", id>>} \cup (IF s.idx THEN {<<"E", s.docs[id], id>>, <<"E", v, id>>} ELSE {})
                             \cup (IF PointMeta THEN {<<"M">>} ELSE {}),
                  new |-> [s EXCEPT !.docs[id] = v,
                                    !.ents = IF s.idx THEN (@ \ {<<s.docs[id], id>>}) \cup {<<v, id>>} ELSE @],
                  res |-> "ok"]
      [] op[1] = "UpdateWhere" ->     \* <<"UpdateWhere", a, b>>: x := b where x = a
            LET a == op[2] b == op[3]
                sel == Sel(s, a)
                \* through the index: the entries of the range and their documents; else a full scan
                rd  == IF s.idx THEN {<<"E", a, i>> : i \in sel} \cup {<<"D", i>> : i \in sel} \cup PastRange(s, a)
                       ELSE {<<"D", i>> : i \in Present(s)}
            IN [reads |-> {<<"M">>} \cup rd,
                writes |-> {<<"D", i>> : i \in sel}
                           \cup (IF s.idx THEN {<<"E", a, i>> : i \in sel} \cup {<<"E", b, i>> : i \in sel} ELSE {})
                           \cup (IF MetaAlways THEN {<<"M">>} ELSE {}),
                new |-> [s EXCEPT !.docs = [i \in IdSet |-> IF i \in sel THEN b ELSE s.docs[i]],
                                  !.ents = IF s.idx THEN (@ \ {<<a, i>> : i \in sel}) \cup {<<b, i>> : i \in sel} ELSE @],
                res |-> sel]
      [] op[1] = "DeleteWhere" ->     \* <<"DeleteWhere", a>>
            LET a == op[2]
                sel == Sel(s, a)
                rd  == IF s.idx THEN {<<"E", a, i>> : i \in sel} \cup {<<"D", i>> : i \in sel} \cup PastRange(s, a)
                       ELSE {<<"D", i>> : i \in Present(s)}
            IN [reads |-> {<<"M">>} \cup rd,
                writes |-> {<<"D", i>> : i \in sel} \cup (IF s.idx THEN {<<"E", a, i>> : i \in sel} ELSE {})
                           \cup (IF MetaAlways \/ sel # {} THEN {<<"M">>} ELSE {}),
                new |-> [s EXCEPT !.docs = [i \in IdSet |-> IF i \in sel THEN None ELSE s.docs[i]],
                                  !.size = @ - Cardinality(sel),
                                  !.ents = IF s.idx THEN @ \ {<<a, i>> : i \in sel} ELSE @],
                res |-> sel]
      [] op[1] = "DeleteById" ->
            LET id == op[2] IN
            IF s.docs[id] = None
            THEN [reads |-> {<<"M">>, <<"D", id>>}, writes |-> {}, new |-> s, res |-> "noop"]
            ELSE [reads |-> {<<"M">>, <<"D", id>>},
                  writes |-> {<<"M">>, <<"D", id>>} \cup (IF s.idx THEN {<<"E", s.docs[id], id>>} ELSE {}),
                  new |-> [s EXCEPT !.docs[id] = None, !.size = @ - 1,
                                    !.ents = IF s.idx THEN @ \ {<<s.docs[id], id>>} ELSE @],
                  res |-> "ok"]
      [] op[1] = "CreateIndex" ->
            IF s.idx THEN [reads |-> {<<"M">>}, writes |-> {}, new |-> s, res |-> "exists"]
            ELSE [reads |-> {<<"M">>} \cup {<<"D", i>> : i \in Present(s)},
                  writes |-> {<<"M">>} \cup {<<"E", s.docs[i], i>> : i \in Present(s)},
                  new |-> [s EXCEPT !.idx = TRUE, !.ents = {<<s.docs[i], i>> : i \in Present(s)}],
                  res |-> "ok"]
      [] op[1] = "DropIndex" ->
            IF ~s.idx THEN [reads |-> {<<"M">>}, writes |-> {}, new |-> s, res |-> "noindex"]
            ELSE [reads |-> {<<"M">>} \cup {<<"E", e[1], e[2]>> : e \in s.ents},
                  writes |-> {<<"M">>} \cup {<<"E", e[1], e[2]>> : e \in s.ents},
                  new |-> [s EXCEPT !.idx = FALSE, !.ents = {}],
                  res |-> "ok"]

      \* reads: FindAll(x = a) and Count() (served from the metadata); they write nothing, so the
      \* store never rejects them
      [] op[1] = "Find" ->
            LET a == op[2]
                sel == Sel(s, a)
                rd  == IF s.idx THEN {<<"E", a, i>> : i \in sel} \cup {<<"D", i>> : i \in sel} \cup PastRange(s, a)
                       ELSE {<<"D", i>> : i \in Present(s)}
            IN [reads |-> {<<"M">>} \cup rd, writes |-> {}, new |-> s, res |-> sel]
      [] op[1] = "Count" ->
            [reads |-> {<<"M">>}, writes |-> {}, new |-> s, res |-> <<"n", s.size>>]

IsWriter(op) == op[1] \notin {"Find", "Count"}   \* the others open an update transaction

\* apply a write set computed on a snapshot to the committed state: written keys take the
\* values they have in the transaction's view (new), the others keep the committed ones
ApplyWrites(cur, eff) ==
    [idx  |-> IF <<"M">> \in eff.writes THEN eff.new.idx ELSE cur.idx,
     size |-> IF <<"M">> \in eff.writes THEN eff.new.size ELSE cur.size,
     docs |-> [i \in IdSet |-> IF <<"D", i>> \in eff.writes THEN eff.new.docs[i] ELSE cur.docs[i]],
     ents |-> {e \in cur.ents : <<"E", e[1], e[2]>> \notin eff.writes}
              \cup {e \in eff.new.ents : <<"E", e[1], e[2]>> \in eff.writes}]

OpPool ==
    {<<"Insert", i, v>> : i \in IdSet, v \in Vals} \cup {<<"UpdateById", i, v>> : i \in IdSet, v \in Vals}
    \cup {<<"UpdateWhere", a, b>> : a, b \in Vals} \cup {<<"DeleteWhere", a>> : a \in Vals}
    \cup {<<"DeleteById", i>> : i \in IdSet} \cup {<<"CreateIndex">>, <<"DropIndex">>}
    \cup (IF WithReads THEN {<<"Find", a>> : a \in Vals} \cup {<<"Count">>} ELSE {})

\* initial contents: every assignment of values to ids, with or without the index
StartDbs ==
    {[idx  |-> ix, size |-> Cardinality({i \in IdSet : d[i] # None}), docs |-> d,
      ents |-> IF ix THEN {<<d[i], i>> : i \in {j \in IdSet : d[j] # None}} ELSE {}] :
        ix \in BOOLEAN, d \in [IdSet -> Vals \cup {None}]}

Init == /\ db \in StartDbs /\ log = <<>> /\ bad = FALSE
        /\ tx = [g \in Gs |-> [st |-> "idle", snap |-> db, start |-> 0, t0 |-> 0, t1 |-> 0, res |-> "-", aborted |-> FALSE]]
        /\ progs \in [Gs -> OpPool]
        /\ db0 = db /\ clock = 0

ActiveWriter == \E g \in Gs : tx[g].st = "run" /\ IsWriter(progs[g])

Start(g) ==
    /\ tx[g].st = "idle"
    /\ (Backend = "bolt" /\ IsWriter(progs[g])) => ~ActiveWriter      \* bbolt: single writer
    /\ tx' = [tx EXCEPT ![g] = [st |-> "run", snap |-> db, start |-> Len(log), t0 |-> clock + 1, t1 |-> 0,
                                res |-> "-", aborted |-> FALSE]]
    /\ clock' = clock + 1
    /\ UNCHANGED <<db, log, bad, progs, db0>>

Finish(g) ==
    /\ tx[g].st = "run"
    /\ LET eff      == Effect(progs[g], tx[g].snap)
           later    == UNION {log[k] : k \in (tx[g].start + 1)..Len(log)}
           conflict == Backend = "badger" /\ eff.writes # {} /\ (eff.reads \cap later) # {}
           now      == Effect(progs[g], db)        \* the operation applied atomically at this instant
       IN /\ tx' = [tx EXCEPT ![g].st = "done", ![g].t1 = clock + 1, ![g].res = eff.res, ![g].aborted = conflict]
          /\ IF conflict
                THEN UNCHANGED <<db, log, bad>>       \* rejected by the store: no effect
                ELSE /\ db'  = ApplyWrites(db, eff)
                     /\ log' = IF eff.writes = {} THEN log ELSE Append(log, eff.writes)
                     /\ bad' = (bad \/ (eff.writes # {} /\ (ApplyWrites(db, eff) # now.new \/ eff.res # now.res)))
    /\ clock' = clock + 1
    /\ UNCHANGED <<progs, db0>>

Next == \E g \in Gs : Start(g) \/ Finish(g)
Spec == Init /\ [][Next]_vars

CommitOrderSerializable == ~bad          \* (too strong under snapshot isolation, see above)

AllDone == \A g \in Gs : tx[g].st = "done"
Orders == {p \in [1..Cardinality(Gs) -> Gs] : \A i, j \in 1..Cardinality(Gs) : i # j => p[i] # p[j]}
RespectsRealTime(p) == \A i, j \in DOMAIN p : i < j => ~(tx[p[j]].t1 < tx[p[i]].t0)

RECURSIVE ReplayFrom(_, _, _)
\* the state after replaying p[i..] sequentially from s, or "fail" if a result differs
ReplayFrom(p, i, s) ==
    IF i > Len(p) THEN s
    ELSE IF tx[p[i]].aborted THEN ReplayFrom(p, i + 1, s)
    ELSE LET e == Effect(progs[p[i]], s) IN
         IF e.res # tx[p[i]].res THEN [idx |-> FALSE, size |-> -1, docs |-> db.docs, ents |-> {}]
         ELSE ReplayFrom(p, i + 1, e.new)

\* C07
Linearizable == AllDone => \E p \in Orders : RespectsRealTime(p) /\ ReplayFrom(p, 1, db0) = db

\* C06 under concurrency: counters and index entries stay exact
Consistent ==
    /\ db.size = Cardinality(Present(db))
    /\ db.ents = (IF db.idx THEN {<<db.docs[i], i>> : i \in Present(db)} ELSE {})

=============================================================================
