------------------------------ MODULE TraceDur ------------------------------
(***************************************************************************)
(* C05, durability discipline of the default on-disk backend: an           *)
(* operation may be acknowledged only when every earlier write to the data *)
(* file has been followed by a sync of that file.  The log is the system   *)
(* call trace (strace) of a process running a history of write operations: *)
(*   W  a write to the data file (pwrite64 / write on its descriptor)      *)
(*   S  fdatasync / fsync of the data file                                 *)
(*   A  the acknowledgement of an operation (a line on standard output)    *)
(*   R  start of a new process                                             *)
(* This is what catches NoSync / NoFreelistSync style changes, which a     *)
(* process kill cannot (the page cache survives the process).              *)
(***************************************************************************)
EXTENDS Naturals, Sequences, TLC, Json, IOUtils

Log == ndJsonDeserialize(IOEnv.TRACE_FILE)

VARIABLES l, dirty, writes, syncs
vars == <<l, dirty, writes, syncs>>

TraceInit == l = 1 /\ dirty = FALSE /\ writes = 0 /\ syncs = 0

Write == dirty' = TRUE  /\ writes' = writes + 1 /\ UNCHANGED syncs
Sync  == dirty' = FALSE /\ syncs' = syncs + 1 /\ UNCHANGED writes
Ack   == UNCHANGED <<dirty, writes, syncs>>
Reset == dirty' = FALSE /\ writes' = 0 /\ syncs' = 0

TraceNext ==
    /\ l <= Len(Log)
    /\ l' = l + 1
    /\ LET e == Log[l] IN
       CASE e.ev = "W" -> Write
         [] e.ev = "S" -> Sync
         [] e.ev = "A" -> Ack
         [] e.ev = "R" -> Reset

TraceSpec == TraceInit /\ [][TraceNext]_vars
TraceAlias == [l |-> l]
TraceAccepted == TLCGet("stats").diameter - 1 = Len(Log)

\* Ack is enabled only when no write to the data file is unsynced
InvDurable == (l > 1 /\ Log[l - 1].ev = "A") => ~dirty
\* (vacuity guard, checked by the orchestrator on the log: a process that commits does write and sync)

=============================================================================
