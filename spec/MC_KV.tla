------------------------------- MODULE MC_KV -------------------------------
(***************************************************************************)
(* Exhaustive check of the key-layout laws of CloverKV over all collection *)
(* names, field names, ids and entry bodies made of a small alphabet that  *)
(* contains every byte the layout itself uses ('c', 'd', 'i', ':') - and,  *)
(* in the `reserved` configuration, the separator ';', which shows why it  *)
(* is reserved (TLC reports the colliding names).  One state per (n, f).   *)
(***************************************************************************)
EXTENDS CloverKV, TLC

CONSTANTS Alpha, MaxName, MaxField, IdAlpha, IdLens, RestAlpha, MaxRest, Codes, FixedLen

CodesA == {<<1>>, <<2, 1>>, <<2, 2>>, <<100>>}     \* a prefix-free set of value codes

Seqs(A, lo, hi) == UNION {[1..k -> A] : k \in lo..hi}
Names  == Seqs(Alpha, 0, MaxName)
Fields == Seqs(Alpha, 0, MaxField)
Ids    == UNION {[1..k -> IdAlpha] : k \in IdLens}
Rests  == Seqs(RestAlpha, 0, MaxRest)

\* two levels, so that the states of the second level are expanded (and their successors checked)
\* by all workers
VARIABLES n, f, stage
Init == n = <<>> /\ f = <<>> /\ stage = 0
Next == \/ stage = 0 /\ n' \in Names /\ stage' = 1 /\ f' = f
        \/ stage = 1 /\ f' \in Fields /\ stage' = 2 /\ n' = n
Spec == Init /\ [][Next]_<<n, f, stage>>

Layout == (stage = 2) => KVLaws(n, f, Names, Fields, Ids, Rests)
Split  == PrefixFree(Codes) /\ SplitLaw(Codes, Ids)
\* holds only when every id has FixedLen bytes (the assumption behind P30)
FixedSplit == FixedSplitLaw(Codes, Ids, FixedLen)
=============================================================================
