SPECIFICATION Spec
CONSTANT Family = "planq"
INVARIANTS PlanLaws
CHECK_DEADLOCK FALSE
