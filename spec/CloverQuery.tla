---------------------------- MODULE CloverQuery ----------------------------
(***************************************************************************)
(* L0: queries, sort order, windows and what counts as a correct answer    *)
(* (C01, C08, C09).                                                        *)
(*                                                                         *)
(* A query is [c, crit, sort, skip, limit]; sort is a sequence of          *)
(* [f |-> path, dir |-> 1 | -1].  Queries are built from builder calls     *)
(* exactly as query.Query does (BuildQuery), so that option normalisation  *)
(* is part of the specification.                                           *)
(***************************************************************************)
EXTENDS CloverCriteria

SX == INSTANCE SequencesExt

NewQuery(c) == [c |-> c, crit |-> NoCrit, sort |-> <<>>, skip |-> 0, limit |-> -1]

NormSort(opts) ==
    IF opts = <<>> THEN << [f |-> IdKey, dir |-> 1] >>          \* Sort() = by _id
    ELSE [i \in DOMAIN opts |-> [f |-> opts[i][1],
                                 dir |-> IF opts[i][2] >= 0 THEN 1 ELSE -1]]

\* one builder call; each returns a new query, the receiver is unchanged
ApplyBuilder(q, b) ==
    CASE b[1] = "where" -> [q EXCEPT !.crit = Desugar(b[2])]
      [] b[1] = "match" -> [q EXCEPT !.crit = <<"un", "fn", <<>>, <<"fn", b[2], b[3]>> >>]
      [] b[1] = "skip"  -> IF b[2] >= 0 THEN [q EXCEPT !.skip = b[2]] ELSE q
      [] b[1] = "limit" -> [q EXCEPT !.limit = b[2]]
      [] b[1] = "sort"  -> [q EXCEPT !.sort = NormSort(b[2])]

RECURSIVE BuildFrom(_, _, _)
BuildFrom(q, bs, i) == IF i > Len(bs) THEN q ELSE BuildFrom(ApplyBuilder(q, bs[i]), bs, i + 1)
BuildQuery(c, bs) == BuildFrom(NewQuery(c), bs, 1)

Windowed(q) == q.skip > 0 \/ q.limit >= 0

Matching(docs, crit) == {id \in DOMAIN docs : SatQ(crit, docs[id])}

WindowLen(total, skip, limit) ==
    LET a == Max2(0, total - skip) IN IF limit < 0 THEN a ELSE Min2(limit, a)

Window(seq, skip, limit) ==
    LET n    == Len(seq)
        from == Min2(Max2(skip, 0), n)
        to   == IF limit < 0 THEN n ELSE Min2(n, from + limit)
    IN SubSeq(seq, from + 1, to)

(* Sort keys.  The property orders an absent field "together with nil      *)
(* before every other value"; clover's comparator puts absent before nil,  *)
(* an index-ordered scan ties them.  Both readings are admitted (DESIGN    *)
(* section 10.4): "first" keeps Absent as a key below nil, "tie" maps it   *)
(* to nil.                                                                 *)
Readings == {"first", "tie"}

KeyOfDoc(d, sort, reading) ==
    [i \in DOMAIN sort |->
        LET x == GetRaw(d, sort[i].f) IN
        IF x = Absent /\ reading = "tie" THEN Nil ELSE x]

CmpA(x, y) == IF x = Absent THEN (IF y = Absent THEN 0 ELSE -1)
              ELSE IF y = Absent THEN 1 ELSE Cmp(x, y)

RECURSIVE KeyCmpFrom(_, _, _, _)
KeyCmpFrom(k1, k2, sort, i) ==
    IF i > Len(sort) THEN 0
    ELSE LET c == CmpA(k1[i], k2[i]) * sort[i].dir IN
         IF c # 0 THEN c ELSE KeyCmpFrom(k1, k2, sort, i + 1)
KeyCmp(k1, k2, sort) == KeyCmpFrom(k1, k2, sort, 1)

\* the (unique up to key equality) ascending sequence of the keys of a set of docs
SortedKeys(docs, ids, sort, reading) ==
    LET idseq == SX!SetToSeq(ids)
        keys  == [i \in DOMAIN idseq |-> KeyOfDoc(docs[idseq[i]], sort, reading)]
    IN SortSeq(keys, LAMBDA a, b : KeyCmp(a, b, sort) < 0)

KeySeqEq(ks1, ks2, sort) ==
    /\ Len(ks1) = Len(ks2)
    /\ \A i \in DOMAIN ks1 : KeyCmp(ks1[i], ks2[i], sort) = 0

Distinct(seq) == \A i, j \in DOMAIN seq : i # j => seq[i] # seq[j]

(* res (a sequence of documents) is an acceptable FindAll(q) answer.       *)
ValidFindAll(res, docs, q) ==
    LET M   == Matching(docs, q.crit)
        ids == [i \in DOMAIN res |-> DocId(res[i])]
    IN /\ Distinct(ids)
       \* every returned document is live, matches, and carries the values last written
       /\ \A i \in DOMAIN res : ids[i] \in M /\ res[i] = docs[ids[i]]
       \* nothing is missing (with no window this makes the id set equal to M)
       /\ Len(res) = WindowLen(Cardinality(M), q.skip, q.limit)
       \* with a sort: the key sequence is the window of the sorted key sequence
       /\ q.sort # <<>> =>
            \E rd \in Readings :
               KeySeqEq([i \in DOMAIN res |-> KeyOfDoc(res[i], q.sort, rd)],
                        Window(SortedKeys(docs, M, q.sort, rd), q.skip, q.limit),
                        q.sort)

(* sel (a set of ids) is an acceptable selection for a bulk operation:     *)
(* the id set of some acceptable FindAll answer.                           *)
ValidSelection(sel, docs, q) ==
    LET M == Matching(docs, q.crit) IN
    /\ sel \subseteq M
    /\ Cardinality(sel) = WindowLen(Cardinality(M), q.skip, q.limit)
    /\ (q.sort # <<>> /\ Windowed(q)) =>
         \E rd \in Readings :
            KeySeqEq(SortedKeys(docs, sel, q.sort, rd),
                     Window(SortedKeys(docs, M, q.sort, rd), q.skip, q.limit),
                     q.sort)

CountOf(docs, q)  == WindowLen(Cardinality(Matching(docs, q.crit)), q.skip, q.limit)
ExistsOf(docs, q) == WindowLen(Cardinality(Matching(docs, q.crit)), q.skip, 1) > 0

\* FindFirst(q) = FindAll(q.Limit(1)); res is <<>> (nil) or <<doc>>
ValidFindFirst(res, docs, q) == ValidFindAll(res, docs, [q EXCEPT !.limit = 1])

(* ForEach whose consumer returns false at its j-th call (j = 0: never):   *)
(* the visited sequence is the first min(j, n) elements of an acceptable   *)
(* FindAll answer of length n.                                             *)
ValidForEach(visits, j, docs, q) ==
    LET n == CountOf(docs, q)
        k == IF j = 0 THEN n ELSE Min2(j, n)
        M == Matching(docs, q.crit)
        ids == [i \in DOMAIN visits |-> DocId(visits[i])]
    IN /\ Len(visits) = k
       /\ Distinct(ids)
       /\ \A i \in DOMAIN visits : ids[i] \in M /\ visits[i] = docs[ids[i]]
       /\ q.sort # <<>> =>
            \E rd \in Readings :
               KeySeqEq([i \in DOMAIN visits |-> KeyOfDoc(visits[i], q.sort, rd)],
                        SubSeq(Window(SortedKeys(docs, M, q.sort, rd), q.skip, q.limit), 1, k),
                        q.sort)

=============================================================================
