---------------------------- MODULE CloverIndex ----------------------------
(***************************************************************************)
(* L2 (part): value ranges and the meaning of an index range scan (C17),   *)
(* and the planner's range derivation (C02).                               *)
(*                                                                         *)
(* A range is [s, e, si, ei]: s / e are values or NoBound (an open end; Go *)
(* nil); si / ei say whether the end is included.  The range with both     *)
(* ends nil and both included is the nil-only range.                       *)
(***************************************************************************)
EXTENDS CloverQuery

NoBound == <<"nobound">>

IsNilRange(r) == r.s = NoBound /\ r.e = NoBound /\ r.si /\ r.ei

(* A nil bound that is not included is an open end; a nil bound that is    *)
(* included is the value nil itself (the smallest value) - that is how the *)
(* nil-only range [nil, nil] arises, and why (5, nil] is empty.            *)
BoundVal(x) == IF x = NoBound THEN Nil ELSE x

InRange(v, r) ==
    /\ \/ (r.s = NoBound /\ ~r.si)
       \/ (IF r.si THEN Cmp(v, BoundVal(r.s)) >= 0 ELSE Cmp(v, BoundVal(r.s)) > 0)
    /\ \/ (r.e = NoBound /\ ~r.ei)
       \/ (IF r.ei THEN Cmp(v, BoundVal(r.e)) <= 0 ELSE Cmp(v, BoundVal(r.e)) < 0)

\* Iterate(): no range at all
FullRange == [s |-> NoBound, e |-> NoBound, si |-> FALSE, ei |-> FALSE, full |-> TRUE]
IsFull(r) == "full" \in DOMAIN r

(* entries of one index: a sequence of <<value, id>> (one per document).   *)
(* Order of a scan: by value, then by document id (the id is the key       *)
(* suffix); descending scans reverse both.                                 *)
EntryCmp(a, b) ==
    LET c == Cmp(a[1], b[1]) IN IF c # 0 THEN c ELSE BytesCmp(a[2], b[2])

ScanIds(entries, r, reverse, stop) ==
    LET sel == SelectSeq(entries, LAMBDA en : IsFull(r) \/ InRange(en[1], r))
        asc == SortSeq(sel, LAMBDA a, b : EntryCmp(a, b) < 0)
        ord == IF reverse THEN [i \in DOMAIN asc |-> asc[Len(asc) + 1 - i]] ELSE asc
        n   == IF stop = 0 THEN Len(ord) ELSE Min2(stop, Len(ord))
    IN [i \in 1..n |-> ord[i][2]]

(* Two entries whose values compare equal may appear in either relative    *)
(* order only if their ids are equal too - ids are unique per index, so    *)
(* the scan order is fully determined whenever equal values have equal     *)
(* keys (C10).                                                             *)

\* the laws of Intersect / IsEmpty over a universe U dense around the bounds
IntersectSound(r1, r2, r3, U) == \A v \in U : (InRange(v, r1) /\ InRange(v, r2)) => InRange(v, r3)
EmptySound(r, U) == \A v \in U : ~InRange(v, r)

=============================================================================
