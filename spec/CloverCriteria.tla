-------------------------- MODULE CloverCriteria --------------------------
(***************************************************************************)
(* L0: criteria trees and their meaning (C01, C16).                        *)
(*                                                                         *)
(*   <<"un", op, field, operand>>   op \in Ops                             *)
(*   <<"and", c1, c2>>  <<"or", c1, c2>>  <<"not", c>>                     *)
(* operands:                                                               *)
(*   <<"lit", v>> (a third component, the Go kind the literal is supplied  *)
(*                 as, is ignored here: that *is* literal-type invariance) *)
(*   <<"ref", field>>       query.Field(name)                              *)
(*   <<"dollar", field>>    the string "$name"                             *)
(*   <<"list", operands>>   In / Contains                                  *)
(*   <<"pat", kind, bytes>> Like; kind \in PatKinds, the pattern is the    *)
(*                          QuoteMeta'd literal anchored according to kind *)
(*   <<"fn", name, field>>  MatchFunc with one of the named predicates     *)
(*   <<"none">>             Exists                                         *)
(***************************************************************************)
EXTENDS CloverDoc

Ops      == {"exists", "eq", "gt", "gte", "lt", "lte", "like", "in", "contains", "fn"}
PatKinds == {"any", "exact", "prefix", "suffix", "contains"}
NoCrit   == <<"none">>

\* the value an operand denotes for the document under test
OperandVal(o, d) ==
    CASE o[1] = "lit"    -> o[2]
      [] o[1] = "ref"    -> Get(d, o[2])
      [] o[1] = "dollar" -> Get(d, o[2])

MatchAt(p, s, off) == /\ off >= 0
                      /\ off + Len(p) <= Len(s)
                      /\ \A i \in 1..Len(p) : s[off + i] = p[i]

LikeMatch(kind, p, s) ==
    CASE kind = "any"      -> TRUE
      [] kind = "exact"    -> s = p
      [] kind = "prefix"   -> MatchAt(p, s, 0)
      [] kind = "suffix"   -> MatchAt(p, s, Len(s) - Len(p))
      [] kind = "contains" -> \E off \in 0..(Len(s) - Len(p)) : MatchAt(p, s, off)

FnHolds(name, f, d) ==
    CASE name = "true"   -> TRUE
      [] name = "false"  -> FALSE
      [] name = "has"    -> Has(d, f)
      [] name = "isnum"  -> Rank(Get(d, f)) = 1
      [] name = "isstr"  -> Rank(Get(d, f)) = 2

SatUnary(op, f, o, d) ==
    CASE op = "exists"   -> Has(d, f)
      \* an absent field fails Eq ...
      [] op = "eq"       -> Has(d, f) /\ Cmp(Get(d, f), OperandVal(o, d)) = 0
      \* ... and behaves as nil for ordering comparisons and In
      [] op = "gt"       -> Cmp(Get(d, f), OperandVal(o, d)) > 0
      [] op = "gte"      -> Cmp(Get(d, f), OperandVal(o, d)) >= 0
      [] op = "lt"       -> Cmp(Get(d, f), OperandVal(o, d)) < 0
      [] op = "lte"      -> Cmp(Get(d, f), OperandVal(o, d)) <= 0
      [] op = "in"       -> \E i \in DOMAIN o[2] :
                               Cmp(OperandVal(o[2][i], d), Get(d, f)) = 0
      [] op = "contains" -> LET a == Get(d, f) IN
                            /\ a[1] = "arr"
                            /\ \A i \in DOMAIN o[2] : \E j \in DOMAIN a[2] :
                                  Cmp(OperandVal(o[2][i], d), a[2][j]) = 0
      [] op = "like"     -> LET s == Get(d, f) IN
                            /\ s[1] \in {"str", "pad"}
                            /\ LikeMatch(o[2], o[3], StrBytes(s))
      [] op = "fn"       -> FnHolds(o[2], o[3], d)

RECURSIVE Sat(_, _)
Sat(c, d) ==
    CASE c[1] = "un"  -> SatUnary(c[2], c[3], c[4], d)
      [] c[1] = "and" -> Sat(c[2], d) /\ Sat(c[3], d)
      [] c[1] = "or"  -> Sat(c[2], d) \/ Sat(c[3], d)
      [] c[1] = "not" -> ~Sat(c[2], d)

SatQ(crit, d) == crit = NoCrit \/ Sat(crit, d)

\* derived builders, as query.Field does
Un(op, f, o) == <<"un", op, f, o>>
Lit(v)       == <<"lit", v>>
Not(c)       == <<"not", c>>
And(a, b)    == <<"and", a, b>>
Or(a, b)     == <<"or", a, b>>
Neq(f, o)    == Not(Un("eq", f, o))
NotExists(f) == Not(Un("exists", f, NoCrit))

(* The derived builders of query.Field, as they appear in observed criteria:  *)
(* <<"sugar", name, f, o>>.  Desugar rewrites them into what they stand for *)
(* (C16: Neq is Not(Eq), NotExists the negation of Exists, ...).            *)
RECURSIVE Desugar(_)
Desugar(c) ==
    CASE c[1] = "sugar" ->
           (CASE c[2] = "neq"       -> Neq(c[3], c[4])
              [] c[2] = "notexists" -> Not(Un("exists", c[3], c[4]))
              [] c[2] = "isnil"     -> Un("eq", c[3], Lit(Nil))
              [] c[2] = "istrue"    -> Un("eq", c[3], Lit(<<"bool", 1>>))
              [] c[2] = "isfalse"   -> Un("eq", c[3], Lit(<<"bool", 0>>))
              [] c[2] = "isnilornotexists" ->
                    Or(Un("eq", c[3], Lit(Nil)), Not(Un("exists", c[3], c[4]))))
      [] c[1] \in {"and", "or"} -> <<c[1], Desugar(c[2]), Desugar(c[3])>>
      [] c[1] = "not" -> <<"not", Desugar(c[2])>>
      [] OTHER -> c

RECURSIVE WFCrit(_)
WFOperandVal(o) == \/ o[1] = "lit" /\ WFValue(o[2])
                   \/ o[1] \in {"ref", "dollar"}
WFUnary(c) ==
    /\ c[2] \in Ops
    /\ CASE c[2] = "exists" -> TRUE
         [] c[2] \in {"eq", "gt", "gte", "lt", "lte"} -> WFOperandVal(c[4])
         [] c[2] \in {"in", "contains"} ->
                (c[4][1] = "list" /\ \A i \in DOMAIN c[4][2] : WFOperandVal(c[4][2][i]))
         [] c[2] = "like" -> (c[4][1] = "pat" /\ c[4][2] \in PatKinds)
         [] c[2] = "fn"   -> c[4][1] = "fn"
WFCrit(c) ==
    CASE c[1] = "un" -> WFUnary(c)
      [] c[1] \in {"and", "or"} -> (WFCrit(c[2]) /\ WFCrit(c[3]))
      [] c[1] = "not" -> WFCrit(c[2])
      [] OTHER -> FALSE

(* Laws (C16) over a finite set CS of criteria and DS of documents.        *)
DeMorganAnd(CS, DS) == \A a, b \in CS, d \in DS :
                          Sat(Not(And(a, b)), d) = Sat(Or(Not(a), Not(b)), d)
DeMorganOr(CS, DS)  == \A a, b \in CS, d \in DS :
                          Sat(Not(Or(a, b)), d) = Sat(And(Not(a), Not(b)), d)
DoubleNeg(CS, DS)   == \A a \in CS, d \in DS : Sat(Not(Not(a)), d) = Sat(a, d)

=============================================================================
