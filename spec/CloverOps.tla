----------------------------- MODULE CloverOps -----------------------------
(***************************************************************************)
(* L1, stateless part: the meaning of every public operation of clover.DB  *)
(* as operators over an abstract database value                            *)
(*                                                                         *)
(*    cat : collection name -> [docs : id -> document, idx : set of paths] *)
(*                                                                         *)
(* (DOMAIN cat = the collections created and not dropped).  An operation   *)
(* instance is an *event* record e (e.op and its arguments); the same      *)
(* records are produced by TLC when it generates inputs, by the Go harness *)
(* when it records executions, and consumed by Clover.tla / TraceL1.tla.   *)
(*                                                                         *)
(* For every event:                                                        *)
(*    Errs(cat, e)       the error classes the call may return             *)
(*    CanOk(cat, e)      whether the call may succeed                      *)
(*    NextCat(cat, e, h) the database after a successful call (h = hint    *)
(*                       fixing the few free choices: generated ids, the   *)
(*                       selection of a windowed bulk operation)           *)
(*    HintOk(cat, e, h)  the hint is an admissible choice                  *)
(* After an error the database is unchanged: that is the first sentence of *)
(* C04 at this level.                                                      *)
(***************************************************************************)
EXTENDS CloverQuery

ErrClasses == {"ErrCollectionExist", "ErrCollectionNotExist", "ErrIndexExist",
               "ErrIndexNotExist", "ErrDocumentNotExist", "ErrDuplicateKey", "other"}

NewColl == [docs |-> <<>>, idx |-> {}]

HasColl(cat, c) == c \in DOMAIN cat
PutColl(cat, c, r) == [n \in DOMAIN cat \cup {c} |-> IF n = c THEN r ELSE cat[n]]
DelColl(cat, c) == [n \in DOMAIN cat \ {c} |-> cat[n]]
Ids(cat, c) == DOMAIN cat[c].docs

QueryOf(e) == BuildQuery(e.c, e.q)

---------------------------------------------------------------------------
(* ids                                                                     *)
Hex == (48..57) \cup (97..102)
HexAny == Hex \cup (65..70)
IsCanonUUID(b) ==
    /\ Len(b) = 36
    /\ \A i \in 1..36 : IF i \in {9, 14, 19, 24} THEN b[i] = 45 ELSE b[i] \in Hex
\* every textual form uuid.FromString accepts is a valid _id: canonical (either case), 32 hex
\* digits, either of them in braces or after "urn:uuid:".  The _id is the string itself: two
\* forms of one UUID are two ids.
IsDashed(b) == Len(b) = 36 /\ \A i \in 1..36 : IF i \in {9, 14, 19, 24} THEN b[i] = 45 ELSE b[i] \in HexAny
IsHash(b)   == Len(b) = 32 /\ \A i \in 1..32 : b[i] \in HexAny
IsBare(b)   == IsDashed(b) \/ IsHash(b)
UrnPrefix   == <<117, 114, 110, 58, 117, 117, 105, 100, 58>>
IsValidId(b) ==
    \/ IsBare(b)
    \/ Len(b) \in {34, 38} /\ b[1] = 123 /\ b[Len(b)] = 125 /\ IsBare(SubSeq(b, 2, Len(b) - 1))
    \/ Len(b) \in {41, 45} /\ SubSeq(b, 1, 9) = UrnPrefix /\ IsBare(SubSeq(b, 10, Len(b)))

IdForm(b, k) ==
    CASE k = "upper"  -> [i \in DOMAIN b |-> IF b[i] \in 97..102 THEN b[i] - 32 ELSE b[i]]
      [] k = "braces" -> <<123>> \o b \o <<125>>
      [] k = "urn"    -> UrnPrefix \o b
      [] k = "bare"   -> LET c == IF Len(b) > 9 /\ SubSeq(b, 1, 9) = UrnPrefix THEN SubSeq(b, 10, Len(b)) ELSE b
                         IN IF Len(c) > 2 /\ c[1] = 123 /\ c[Len(c)] = 125 THEN SubSeq(c, 2, Len(c) - 1) ELSE c

NeedsGen(d) == ~ObjHas(d[2], IdKey) \/ ObjLookup(d[2], IdKey) = <<"str", <<>>>>

ValidDoc(d) ==
    /\ IsValidId(DocId(d))
    /\ ObjHas(d[2], ExpiresKey) => ObjLookup(d[2], ExpiresKey)[1] = "time"

---------------------------------------------------------------------------
(* named updaters (the harness implements each one in Go; "…InPlace"       *)
(* variants mutate the document they are given and return it, which must   *)
(* make no difference)                                                     *)
ApplyUpd(d, u) ==
    CASE u[1] \in {"set", "setInPlace"} -> Set(d, u[2], u[3])
      [] u[1] \in {"unset", "unsetInPlace"} -> Unset(d, u[2])
      [] u[1] = "id"     -> d
      \* rewrites _id as another textual form of the same UUID: a different id all the same
      [] u[1] = "idform" -> Set(d, IdKey, <<"str", IdForm(DocId(d), u[2])>>)
      [] u[1] = "nil"    -> Absent                    \* updater returns nil: delete
      [] u[1] = "setall" -> SetAll(d, u[2])           \* DB.Update(q, map)
      [] u[1] \in {"append", "appendInPlace"} ->
            LET x == Get(d, u[2]) IN
            IF x[1] = "arr" THEN Set(d, u[2], <<"arr", Append(x[2], u[3])>>)
            ELSE Set(d, u[2], <<"arr", <<u[3]>> >>)

\* the document an updater yields is storable under the key id
UpdOk(d, id) == d = Absent \/ (ValidDoc(d) /\ DocId(d) = id)

---------------------------------------------------------------------------
(* Insert                                                                  *)
\* final documents of a batch, given the ids the call reports for them
WithIds(ds, ids) ==
    [i \in DOMAIN ds |-> IF NeedsGen(ds[i]) THEN Set(ds[i], IdKey, <<"str", ids[i]>>) ELSE ds[i]]

\* positions whose supplied id is already stored or appears earlier in the batch
DupPositions(cat, c, ds) ==
    {i \in DOMAIN ds : /\ ~NeedsGen(ds[i])
                       /\ \/ DocId(ds[i]) \in Ids(cat, c)
                          \/ \E j \in 1..(i - 1) : ~NeedsGen(ds[j]) /\ DocId(ds[j]) = DocId(ds[i])}
BadPositions(ds) ==
    {i \in DOMAIN ds : ~NeedsGen(ds[i]) /\ ~ValidDoc(ds[i])}
    \cup {i \in DOMAIN ds : NeedsGen(ds[i]) /\ ObjHas(ds[i][2], ExpiresKey)
                                           /\ ObjLookup(ds[i][2], ExpiresKey)[1] # "time"}

InsertErrs(cat, c, ds) ==
    IF ~HasColl(cat, c) THEN {"ErrCollectionNotExist"}
    ELSE (IF DupPositions(cat, c, ds) # {} THEN {"ErrDuplicateKey"} ELSE {})
         \cup (IF BadPositions(ds) # {} THEN {"other"} ELSE {})

\* reported ids: supplied ones are kept, generated ones are canonical and fresh
InsertIdsOk(cat, c, ds, ids) ==
    /\ Len(ids) = Len(ds)
    /\ \A i \in DOMAIN ds :
         IF NeedsGen(ds[i])
         THEN /\ IsCanonUUID(ids[i])
              /\ ids[i] \notin Ids(cat, c)
              /\ \A j \in DOMAIN ds : j # i => ids[j] # ids[i]
         ELSE ids[i] = DocId(ds[i])

InsertNext(cat, c, ds, ids) ==
    LET fin == WithIds(ds, ids)
        new == {DocId(fin[i]) : i \in DOMAIN fin}
        pos(id) == CHOOSE i \in DOMAIN fin : DocId(fin[i]) = id
    IN PutColl(cat, c, [cat[c] EXCEPT !.docs =
          [id \in DOMAIN cat[c].docs \cup new |->
              IF id \in new THEN fin[pos(id)] ELSE cat[c].docs[id]]])

---------------------------------------------------------------------------
(* bulk update / delete                                                    *)
BulkDocs(docs, sel, u) ==
    LET removed == {id \in sel : ApplyUpd(docs[id], u) = Absent} IN
    [id \in DOMAIN docs \ removed |-> IF id \in sel THEN ApplyUpd(docs[id], u) ELSE docs[id]]

BulkErrs(cat, q, u) ==
    IF ~HasColl(cat, q.c) THEN {"ErrCollectionNotExist"}
    ELSE LET docs == cat[q.c].docs
             M    == Matching(docs, q.crit)
         IN \* an updater result that is not storable fails the call; with a
            \* window the offending document may or may not be selected
            IF \E id \in M : ~UpdOk(ApplyUpd(docs[id], u), id) THEN {"other"} ELSE {}

BulkCanOk(cat, q, u, sel) ==
    /\ HasColl(cat, q.c)
    /\ \A id \in sel : UpdOk(ApplyUpd(cat[q.c].docs[id], u), id)

BulkNext(cat, q, u, sel) ==
    PutColl(cat, q.c, [cat[q.c] EXCEPT !.docs = BulkDocs(cat[q.c].docs, sel, u)])

---------------------------------------------------------------------------
(* JSON typing (C19): what a value becomes after Export + Import           *)
RECURSIVE JsonTyped(_)
JsonTyped(v) ==
    CASE v[1] = "num"  -> <<"num", v[2], "f">>
      [] v[1] = "time" -> <<"timestr", v[2], v[3]>>      \* its RFC 3339 text
      [] v[1] = "arr"  -> <<"arr", [i \in DOMAIN v[2] |-> JsonTyped(v[2][i])]>>
      [] v[1] = "obj"  -> <<"obj", [i \in DOMAIN v[2] |-> <<v[2][i][1], JsonTyped(v[2][i][2])>>]>>
      [] OTHER -> v

\* a document read from a dump: an expiration instant was exported as its RFC 3339 text and is an instant again
\* (C19: a collection whose documents expire is reproduced like any other); everything else stays JSON-typed
Revive(d) ==
    IF ObjHas(d[2], ExpiresKey) /\ ObjLookup(d[2], ExpiresKey)[1] = "timestr"
    THEN LET t == ObjLookup(d[2], ExpiresKey) IN Set(d, ExpiresKey, <<"time", t[2], t[3]>>)
    ELSE d
FileDocs(f) == [i \in DOMAIN f[2] |-> Revive(f[2][i])]

\* paths under a directory that does not exist: an export there fails, and changes nothing
UnwritablePaths == {"nodir/exp.json"}

---------------------------------------------------------------------------
(* The dispatch: acceptable errors                                         *)
NoColl(cat, c) == IF HasColl(cat, c) THEN {} ELSE {"ErrCollectionNotExist"}

Errs(cat, files, e) ==
    CASE e.op = "CreateCollection" -> IF HasColl(cat, e.c) THEN {"ErrCollectionExist"} ELSE {}
      [] e.op = "DropCollection"   -> NoColl(cat, e.c)
      [] e.op \in {"HasCollection", "ListCollections", "Close", "Reopen", "PutFile", "Reset"} -> {}
      [] e.op \in {"Insert", "InsertOne"} -> InsertErrs(cat, e.c, e.docs)
      [] e.op = "Save" ->
            IF NeedsGen(e.docs[1]) THEN InsertErrs(cat, e.c, e.docs)
            ELSE IF ~HasColl(cat, e.c) THEN {"ErrCollectionNotExist"}
            ELSE IF DocId(e.docs[1]) \notin Ids(cat, e.c) THEN {"ErrDocumentNotExist"}
            ELSE IF ~ValidDoc(e.docs[1]) THEN {"other"} ELSE {}
      [] e.op = "ReplaceById" ->
            (IF DocId(e.docs[1]) # e.id THEN {"other"} ELSE {})
            \cup (IF ~HasColl(cat, e.c) THEN {"ErrCollectionNotExist"}
                  ELSE IF e.id \notin Ids(cat, e.c) THEN {"ErrDocumentNotExist"}
                  ELSE IF ~ValidDoc(e.docs[1]) THEN {"other"} ELSE {})
      [] e.op = "UpdateById" ->
            IF ~HasColl(cat, e.c) THEN {"ErrCollectionNotExist"}
            ELSE IF e.id \notin Ids(cat, e.c) THEN {"ErrDocumentNotExist"}
            ELSE IF ~UpdOk(ApplyUpd(cat[e.c].docs[e.id], e.upd), e.id) THEN {"other"} ELSE {}
      [] e.op \in {"Update", "UpdateFunc"} -> BulkErrs(cat, QueryOf(e), e.upd)
      [] e.op = "Delete" -> NoColl(cat, e.c)
      \* deleting an absent id: success or ErrDocumentNotExist, no effect either way
      [] e.op = "DeleteById" ->
            IF ~HasColl(cat, e.c) THEN {"ErrCollectionNotExist"}
            ELSE IF e.id \notin Ids(cat, e.c) THEN {"ErrDocumentNotExist"} ELSE {}
      [] e.op = "CreateIndex" ->
            IF ~HasColl(cat, e.c) THEN {"ErrCollectionNotExist"}
            ELSE IF e.f \in cat[e.c].idx THEN {"ErrIndexExist"} ELSE {}
      [] e.op = "DropIndex" ->
            IF ~HasColl(cat, e.c) THEN {"ErrCollectionNotExist"}
            ELSE IF e.f \notin cat[e.c].idx THEN {"ErrIndexNotExist"} ELSE {}
      [] e.op \in {"HasIndex", "ListIndexes", "FindById",
                   "FindAll", "ForEach", "FindFirst", "Count", "Exists", "Derived"} -> NoColl(cat, e.c)
      \* IterateDocs whose consumer returns an error at its j-th call: that error comes back
      [] e.op = "IterateDocs" ->
            IF ~HasColl(cat, e.c) THEN {"ErrCollectionNotExist"}
            ELSE IF e.j > 0 /\ e.j <= CountOf(cat[e.c].docs, QueryOf(e)) THEN {"consumer"} ELSE {}
      [] e.op = "Export" -> NoColl(cat, e.c) \cup (IF e.path \in UnwritablePaths THEN {"other"} ELSE {})
      [] e.op = "Import" ->
            (IF HasColl(cat, e.c) THEN {"ErrCollectionExist"} ELSE {})
            \* a dump of n generated documents whose k-th one repeats the first id ("dup") or carries a
            \* malformed one ("bad"): <<"gen", n, k, kind>>.  However long it is, nothing of it is imported
            \cup (IF e.path \in DOMAIN files /\ files[e.path][1] = "gen"
                  THEN (IF files[e.path][4] = "dup" THEN {"ErrDuplicateKey"} ELSE {"other"})
                  ELSE IF e.path \notin DOMAIN files \/ files[e.path][1] # "docs" THEN {"other"}
                  ELSE LET ds == FileDocs(files[e.path]) IN
                       IF \E i \in DOMAIN ds : ~NeedsGen(ds[i]) /\ ~ValidDoc(ds[i])
                       THEN {"other"}
                       ELSE IF \E i, j \in DOMAIN ds :
                             /\ i < j
                             /\ ~NeedsGen(ds[i])
                             /\ DocId(ds[i]) = DocId(ds[j])
                       THEN {"ErrDuplicateKey"} ELSE {})
      [] e.op = "CreateByQuery" ->
            (IF HasColl(cat, e.name) THEN {"ErrCollectionExist"} ELSE {})
            \cup NoColl(cat, e.c)        \* also when the source is the target itself (C13: no side effect)

\* calls that may both fail and succeed in the same state
MayOkDespiteErrs(cat, e) ==
    \/ e.op = "DeleteById" /\ HasColl(cat, e.c) /\ e.id \notin Ids(cat, e.c)
    \* Save of a valid document whose supplied _id is not stored yet: clover reports
    \* ErrDocumentNotExist (it routes to ReplaceById); inserting it would satisfy every property too
    \/ e.op = "Save" /\ HasColl(cat, e.c) /\ ~NeedsGen(e.docs[1]) /\ ValidDoc(e.docs[1])
                     /\ DocId(e.docs[1]) \notin Ids(cat, e.c)
    \* a windowed bulk update may not select the offending document
    \/ e.op \in {"Update", "UpdateFunc"} /\ HasColl(cat, e.c) /\ Windowed(QueryOf(e))

CanOk(cat, files, e) == Errs(cat, files, e) = {} \/ MayOkDespiteErrs(cat, e)

---------------------------------------------------------------------------
(* The dispatch: state after a successful call.  h is a record of hints:   *)
(*   h.ids  final ids of an Insert / Save batch                            *)
(*   h.sel  selection of a bulk operation / CreateByQuery                  *)
HintOk(cat, files, e, h) ==
    CASE e.op \in {"Insert", "InsertOne"} -> InsertIdsOk(cat, e.c, e.docs, h.ids)
      [] e.op = "Save" -> NeedsGen(e.docs[1]) => InsertIdsOk(cat, e.c, e.docs, h.ids)
      [] e.op \in {"Update", "UpdateFunc"} ->
            /\ ValidSelection(h.sel, cat[e.c].docs, QueryOf(e))
            /\ BulkCanOk(cat, QueryOf(e), e.upd, h.sel)
      [] e.op = "Delete" -> ValidSelection(h.sel, cat[e.c].docs, QueryOf(e))
      [] e.op = "CreateByQuery" -> ValidSelection(h.sel, cat[e.c].docs, QueryOf(e))
      [] e.op = "Import" ->
            LET ds == files[e.path][2] IN
            /\ Len(h.ids) = Len(ds)
            /\ InsertIdsOk(PutColl(cat, e.c, NewColl), e.c, ds, h.ids)
      [] OTHER -> TRUE

NextCat(cat, files, e, h) ==
    CASE e.op = "CreateCollection" -> PutColl(cat, e.c, NewColl)
      [] e.op = "DropCollection"   -> DelColl(cat, e.c)
      [] e.op \in {"Insert", "InsertOne"} -> InsertNext(cat, e.c, e.docs, h.ids)
      [] e.op = "Save" ->
            IF NeedsGen(e.docs[1]) THEN InsertNext(cat, e.c, e.docs, h.ids)
            ELSE PutColl(cat, e.c, [cat[e.c] EXCEPT !.docs =
                    [id \in DOMAIN @ \cup {DocId(e.docs[1])} |-> IF id = DocId(e.docs[1]) THEN e.docs[1] ELSE @[id]]])
      [] e.op = "ReplaceById" ->
            PutColl(cat, e.c, [cat[e.c] EXCEPT !.docs[e.id] = e.docs[1]])
      \* one contract for updaters, whichever operation runs them: returning nil deletes the document
      [] e.op = "UpdateById" ->
            LET nd == ApplyUpd(cat[e.c].docs[e.id], e.upd) IN
            IF nd = Absent
            THEN PutColl(cat, e.c, [cat[e.c] EXCEPT !.docs = [id \in DOMAIN @ \ {e.id} |-> @[id]]])
            ELSE PutColl(cat, e.c, [cat[e.c] EXCEPT !.docs[e.id] = nd])
      [] e.op \in {"Update", "UpdateFunc"} -> BulkNext(cat, QueryOf(e), e.upd, h.sel)
      [] e.op = "Delete" -> BulkNext(cat, QueryOf(e), <<"nil">>, h.sel)
      [] e.op = "DeleteById" ->
            IF e.id \in Ids(cat, e.c)
            THEN PutColl(cat, e.c, [cat[e.c] EXCEPT !.docs = [id \in DOMAIN @ \ {e.id} |-> @[id]]])
            ELSE cat
      [] e.op = "CreateIndex" -> PutColl(cat, e.c, [cat[e.c] EXCEPT !.idx = @ \cup {e.f}])
      [] e.op = "DropIndex"   -> PutColl(cat, e.c, [cat[e.c] EXCEPT !.idx = @ \ {e.f}])
      [] e.op = "Import" ->
            InsertNext(PutColl(cat, e.c, NewColl), e.c, FileDocs(files[e.path]), h.ids)
      [] e.op = "CreateByQuery" ->
            PutColl(cat, e.name, [docs |-> [id \in h.sel |-> cat[e.c].docs[id]], idx |-> {}])
      [] e.op = "Reset" -> <<>>
      [] OTHER -> cat                                  \* reads, Export, Close, Reopen, PutFile

NextFiles(cat, files, e) ==
    CASE e.op = "Export" ->
            \* the exported file holds the JSON typing of the collection
            LET ids == SX!SetToSeq(Ids(cat, e.c)) IN
            [p \in DOMAIN files \cup {e.path} |->
                IF p = e.path THEN <<"docs", [i \in DOMAIN ids |-> JsonTyped(cat[e.c].docs[ids[i]])]>>
                ELSE files[p]]
      [] e.op = "PutFile" ->
            [p \in DOMAIN files \cup {e.path} |-> IF p = e.path THEN e.content ELSE files[p]]
      [] e.op = "Reset" -> <<>>
      [] OTHER -> files

WriteOps == {"CreateCollection", "DropCollection", "Insert", "InsertOne", "Save", "ReplaceById",
             "UpdateById", "Update", "UpdateFunc", "Delete", "DeleteById", "CreateIndex",
             "DropIndex", "Import", "CreateByQuery"}
ReadOps  == {"HasCollection", "ListCollections", "HasIndex", "ListIndexes", "FindById", "FindAll",
             "ForEach", "IterateDocs", "FindFirst", "Count", "Exists", "Derived", "Export"}

---------------------------------------------------------------------------
(* State invariants of the abstract database (C12, C13)                    *)
KeyIsId(cat) == \A c \in DOMAIN cat : \A id \in DOMAIN cat[c].docs :
                   DocId(cat[c].docs[id]) = id /\ ValidDoc(cat[c].docs[id])

=============================================================================
