------------------------------- MODULE Clover -------------------------------
(***************************************************************************)
(* L1: the abstract clover database as a state machine.                    *)
(*                                                                         *)
(* One action per public operation instance (an event record, see          *)
(* CloverOps); in a sequential library the linearization point of an       *)
(* operation is the return of the public call.  The module also defines    *)
(* what it means for an *observed* outcome of an event (a run record       *)
(* produced by the Go harness) to conform: the predicates below are used   *)
(* as invariants by the trace specifications and are grouped by the        *)
(* property they state.                                                    *)
(***************************************************************************)
EXTENDS CloverOps

VARIABLES cat,      \* the database
          files,    \* path -> <<"docs", seq>> | <<"bad">>  (export/import)
          open      \* the handle has not been closed

vars == <<cat, files, open>>

Init == cat = <<>> /\ files = <<>> /\ open = TRUE

(* The step for event e when the call succeeded with hint h.               *)
Succeed(e, h) ==
    /\ open
    \* (written as an equation so that TLC evaluates the guard as one expression and does
    \* not split the action on the disjunctions inside it)
    /\ (CanOk(cat, files, e) /\ HintOk(cat, files, e, h)) = TRUE
    /\ cat'   = NextCat(cat, files, e, h)
    /\ files' = NextFiles(cat, files, e)
    /\ open'  = (e.op # "Close")

(* The step for event e when the call failed: nothing changes.             *)
Fail(e) ==
    /\ open
    /\ (Errs(cat, files, e) # {}) = TRUE
    /\ UNCHANGED vars

(* Calls on a closed handle change nothing; Reopen makes it usable again.  *)
Closed(e) ==
    /\ ~open
    /\ open' = (e.op = "Reopen")
    /\ UNCHANGED <<cat, files>>

TypeOK ==
    /\ open \in BOOLEAN
    /\ \A c \in DOMAIN cat : DOMAIN cat[c] = {"docs", "idx"}

\* C12 / C13 at the level of the abstract state
Inv == KeyIsId(cat)

---------------------------------------------------------------------------
(* Conformance of observed outcomes.  run = [res, audit?]; res = [st, err, *)
(* val, ...]; pc / pf / po = database, files, open flag before the call;   *)
(* c = database after the call as computed by the specification.           *)

Range(s) == {s[i] : i \in DOMAIN s}
HasField(r, k) == k \in DOMAIN r

BulkOps == {"Update", "UpdateFunc", "Delete"}

AuditColl(a, name) ==
    LET S == {i \in DOMAIN a.colls : a.colls[i].name = name} IN
    IF S = {} THEN [name |-> name, size |-> -1, idx |-> <<>>, docs |-> <<>>, entries |-> <<>>]
    ELSE a.colls[CHOOSE i \in S : TRUE]

AuditDocIds(x) == {x.docs[i][1] : i \in DOMAIN x.docs}
AuditDoc(x, id) == x.docs[CHOOSE i \in DOMAIN x.docs : x.docs[i][1] = id][2]

(* The free choices of a call, read from what was observed.                *)
SelOf(e, run, pc) ==
    LET q    == QueryOf(e)
        docs == pc[e.c].docs
    IN IF ~Windowed(q) THEN Matching(docs, q.crit)
       ELSE IF e.op = "UpdateFunc"
            THEN {DocId(run.res.calls[i]) : i \in DOMAIN run.res.calls}
       ELSE IF e.op = "CreateByQuery"
            THEN AuditDocIds(AuditColl(run.audit, e.name))
       ELSE LET x == AuditColl(run.audit, e.c)
                \* the documents the call visibly changed ...
                D == {id \in DOMAIN docs : id \notin AuditDocIds(x) \/ AuditDoc(x, id) # docs[id]}
                \* ... and those it may have selected without a visible effect (an update map whose
                \* values they already hold): any admissible selection between the two explains the call
                I == IF e.op = "Update"
                     THEN {id \in Matching(docs, q.crit) \ D : ApplyUpd(docs[id], e.upd) = docs[id]}
                     ELSE {}
                good == {s \in {D \cup X : X \in SUBSET I} : ValidSelection(s, docs, q)}
            IN IF I = {} \/ good = {} THEN D ELSE CHOOSE s \in good : TRUE

HintOf(e, run, pc, pf) ==
    [ids |-> IF HasField(run.res, "ids") THEN run.res.ids
             \* imported documents keep the ids found in the file
             ELSE IF e.op = "Import" /\ e.path \in DOMAIN pf /\ pf[e.path][1] = "docs"
                  THEN [i \in DOMAIN pf[e.path][2] |-> DocId(pf[e.path][2][i])]
             \* not observed (an operation in flight at a crash): supplied ids are kept
             ELSE IF HasField(e, "docs") /\ e.op \in {"Insert", "InsertOne", "Save"}
                  THEN [i \in DOMAIN e.docs |-> DocId(e.docs[i])]
             ELSE <<>>,
     sel |-> IF e.op \in BulkOps \cup {"CreateByQuery"} /\ HasColl(pc, e.c)
                THEN SelOf(e, run, pc) ELSE {}]

\* C20: every call returns normally
\* ... and without damage outside the database: "harm" is set by the harness when memory the
\* caller owns was changed behind its back (a document passed to Insert reads differently afterwards;
\* strings returned by an earlier call no longer read the same)
NoPanic(run) == run.res.st \in {"ok", "err"} /\ ~HasField(run.res, "harm")

\* the error class / success is one the specification admits in the pre-state
\* a store may refuse a transaction as a whole (badger: larger than its size limit); the call then
\* fails with the store's error, whatever the operation
StoreRefused(e, run) == e.op \in WriteOps /\ HasField(run.res, "storelimit")

OutcomeOk(e, run, pc, pf) ==
    /\ run.res.st = "err" => (run.res.err \in Errs(pc, pf, e) \/ StoreRefused(e, run))
    /\ run.res.st = "ok"  => CanOk(pc, pf, e) /\ HintOk(pc, pf, e, HintOf(e, run, pc, pf))

\* returned values of the read operations (C01 C08 C09 C12 C13 C14)
OptDocOk(v, docs, id) ==     \* v = <<>> (nil) or <<doc>>
    IF id \in DOMAIN docs THEN v = <<docs[id]>> ELSE v = <<>>

DerivedOk(v, docs, q) ==
    /\ ValidFindAll(v.all, docs, q)
    /\ v.count = Len(v.all)                                  \* Count = len(FindAll)
    /\ v.count = CountOf(docs, q)
    /\ q.limit # 0 => /\ v.exists = (Len(v.all) > 0)         \* Exists <=> non-empty
                      /\ ValidFindFirst(v.first, docs, q)
                      \* FindFirst = the first element of FindAll, or nil
                      /\ v.first = (IF Len(v.all) > 0 THEN <<v.all[1]>> ELSE <<>>)
    /\ \A i \in DOMAIN v.foreach :
          LET fe == v.foreach[i]
              k  == IF fe.j = 0 THEN Len(v.all) ELSE Min2(fe.j, Len(v.all))
          IN /\ ValidForEach(fe.visits, fe.j, docs, q)
             /\ fe.visits = SubSeq(v.all, 1, k)              \* the FindAll sequence, stopped
    /\ \A i \in DOMAIN v.byid : OptDocOk(v.byid[i][2], docs, v.byid[i][1])

ValOk(e, run, pc) ==
    LET v == run.res.val IN
    CASE e.op = "HasCollection"   -> v = HasColl(pc, e.c)
      [] e.op = "ListCollections" -> Distinct(v) /\ Range(v) = DOMAIN pc
      [] e.op = "InsertOne"       -> v = run.res.ids[1]
      [] e.op = "HasIndex"        -> v = (e.f \in pc[e.c].idx)
      [] e.op = "ListIndexes"     -> Distinct(v) /\ Range(v) = pc[e.c].idx
      [] e.op = "FindById"        -> OptDocOk(v, pc[e.c].docs, e.id)
      [] e.op = "FindAll"         -> ValidFindAll(v, pc[e.c].docs, QueryOf(e))
      [] e.op \in {"ForEach", "IterateDocs"} -> ValidForEach(v, e.j, pc[e.c].docs, QueryOf(e))
      [] e.op = "FindFirst"       -> ValidFindFirst(v, pc[e.c].docs, QueryOf(e))
      [] e.op = "Count"           -> v = CountOf(pc[e.c].docs, QueryOf(e))
      [] e.op = "Exists"          -> v = ExistsOf(pc[e.c].docs, QueryOf(e))
      [] e.op = "Derived"         -> DerivedOk(v, pc[e.c].docs, QueryOf(e))
      [] OTHER -> TRUE

\* an iteration stopped by its consumer's error has visited exactly the documents before the stop
StoppedOk(e, run, pc) ==
    (e.op = "IterateDocs" /\ run.res.st = "err" /\ run.res.err = "consumer" /\ HasColl(pc, e.c)) =>
        ValidForEach(run.res.val, e.j, pc[e.c].docs, QueryOf(e))

\* C09: calls and builders leave the query object they were given unchanged
PureOk(run) == HasField(run.res, "qfp") => run.res.qfp[1] = run.res.qfp[2]

\* C03: the update function ran exactly once per selected document, on its
\* pre-call value
CallsOk(e, run, pc) ==
    (e.op = "UpdateFunc" /\ run.res.st = "ok") =>
        LET sel   == SelOf(e, run, pc)
            calls == run.res.calls
        IN /\ Len(calls) = Cardinality(sel)
           /\ {DocId(calls[i]) : i \in DOMAIN calls} = sel
           /\ \A i \in DOMAIN calls : calls[i] = pc[e.c].docs[DocId(calls[i])]

---------------------------------------------------------------------------
(* Conformance of the key-space audit with the abstract state.             *)
(* a = [colls : seq of [name, size, idx, docs, entries], orphans, junk]    *)
(*   docs    = seq of <<id from the key, decoded document>>                *)
(*   entries = seq of <<field, id, cur>>: one per index key found; cur = 1 *)
(*             iff its bytes are the key of the stored document's current  *)
(*             value of that field (absent = nil)                          *)
(*   orphans = keys under c:<name>; of a name that has no metadata         *)
(*   junk    = keys matching no known layout                               *)

CatalogAuditOk(a, c) ==
    /\ Distinct([i \in DOMAIN a.colls |-> a.colls[i].name])
    /\ {a.colls[i].name : i \in DOMAIN a.colls} = DOMAIN c
    /\ a.orphans = <<>>                      \* nothing outside any live collection
    /\ a.junk = <<>>

DocsAuditOk(a, c) ==
    \A i \in DOMAIN a.colls :
       LET x == a.colls[i] IN
       x.name \in DOMAIN c =>
          /\ Distinct([k \in DOMAIN x.docs |-> x.docs[k][1]])
          /\ AuditDocIds(x) = DOMAIN c[x.name].docs
          /\ \A k \in DOMAIN x.docs : x.docs[k][2] = c[x.name].docs[x.docs[k][1]]

\* C12: every record is stored under the key of its own _id
KeyIsIdAuditOk(a) ==
    \A i \in DOMAIN a.colls : \A k \in DOMAIN a.colls[i].docs :
       LET p == a.colls[i].docs[k] IN p[2][1] = "obj" /\ DocId(p[2]) = p[1]

SizeAuditOk(a, c) ==
    \A i \in DOMAIN a.colls :
       LET x == a.colls[i] IN
       x.name \in DOMAIN c => x.size = Cardinality(DOMAIN c[x.name].docs)

IndexCatalogAuditOk(a, c) ==
    \A i \in DOMAIN a.colls :
       LET x == a.colls[i] IN
       x.name \in DOMAIN c => Distinct(x.idx) /\ Range(x.idx) = c[x.name].idx

\* exactly one entry per (document, indexed field), under the current value,
\* and nothing else
EntriesAuditOk(a, c) ==
    \A i \in DOMAIN a.colls :
       LET x == a.colls[i] IN
       x.name \in DOMAIN c =>
          LET s == c[x.name] IN
          /\ Len(x.entries) = Cardinality(s.idx) * Cardinality(DOMAIN s.docs)
          /\ Cardinality({<<x.entries[k][1], x.entries[k][2]>> : k \in DOMAIN x.entries}) = Len(x.entries)
          /\ \A k \in DOMAIN x.entries :
                /\ x.entries[k][1] \in s.idx
                /\ x.entries[k][2] \in DOMAIN s.docs
                /\ x.entries[k][3] = 1

AuditOk(a, c) ==
    /\ CatalogAuditOk(a, c)
    /\ DocsAuditOk(a, c)
    /\ SizeAuditOk(a, c)
    /\ IndexCatalogAuditOk(a, c)
    /\ EntriesAuditOk(a, c)

=============================================================================
