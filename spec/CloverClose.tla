---------------------------- MODULE CloverClose ----------------------------
(***************************************************************************)
(* C20, "also after Close ... never panics and never blocks forever", when *)
(* Close is called by one goroutine while others use the handle.           *)
(*                                                                         *)
(* A public operation of clover is a sequence of store transactions (one   *)
(* for most operations; Save, Export, Exists ... are implemented on top of *)
(* other public operations and run two in a row, never one inside the      *)
(* other).  The store is usable until it has been closed; using it         *)
(* afterwards is a panic (badger) - the state "used" below.                *)
(*                                                                         *)
(* Three protocols between Begin and Close are modelled; Design selects:   *)
(*                                                                         *)
(*  "count"  the store counts its open transactions; Close refuses new     *)
(*           ones, waits for the open ones, then closes (bbolt by itself;  *)
(*           the badger adapter since the repair P41)                      *)
(*  "flag"   Begin tests a closed flag and then creates the transaction;   *)
(*           Close sets the flag and closes (the badger adapter before    *)
(*           P41): TLC finds the use after close                           *)
(*  "rwlock" every public operation holds a read lock, an operation built  *)
(*           on another public operation takes it again, Close takes the   *)
(*           write lock, and a waiting writer holds back new readers (Go's *)
(*           sync.RWMutex; the seeded change C20-h): TLC finds the         *)
(*           deadlock                                                      *)
(*                                                                         *)
(* lin-close (TraceLin with the open flag) is the binding to the code:     *)
(* histories in which one goroutine closes the handle while the others use *)
(* it must consist of calls that all return, each one either before Close  *)
(* (with its ordinary result) or after it (with an error).                 *)
(***************************************************************************)
EXTENDS Naturals, FiniteSets

CONSTANTS Workers,   \* goroutines issuing operations
          Closer,    \* the goroutine that calls Close
          Design,    \* "count" | "flag" | "rwlock"
          Txs        \* store transactions per operation (1 or 2, one after the other)

VARIABLES pc,        \* goroutine -> control state
          left,      \* worker -> transactions its operation has still to run
          active,    \* open store transactions ("count")
          refused,   \* no transaction begins any more ("count" and "flag": the closed flag)
          storeOpen, \* the underlying store has not been closed
          readers,   \* holders of the read lock, with multiplicity ("rwlock")
          waiting,   \* a writer waits for the lock ("rwlock")
          writer,    \* the write lock is held ("rwlock")
          result     \* worker -> "none" | "ok" | "error" | "used" (a transaction used a closed store)

vars == <<pc, left, active, refused, storeOpen, readers, waiting, writer, result>>

Procs == Workers \cup {Closer}

Init ==
    /\ pc = [p \in Procs |-> IF p = Closer THEN "close" ELSE "call"]
    /\ left = [w \in Workers |-> Txs]
    /\ active = 0 /\ refused = FALSE /\ storeOpen = TRUE
    /\ readers = 0 /\ waiting = FALSE /\ writer = FALSE
    /\ result = [w \in Workers |-> "none"]

---------------------------------------------------------------------------
(* workers *)

\* entering a public operation: only "rwlock" does anything here
Call(w) ==
    /\ pc[w] = "call"
    /\ IF Design = "rwlock"
       THEN /\ ~waiting /\ ~writer          \* a waiting writer holds back new readers
            /\ readers' = readers + 1
       ELSE UNCHANGED readers
    /\ pc' = [pc EXCEPT ![w] = "begin"]
    /\ UNCHANGED <<left, active, refused, storeOpen, waiting, writer, result>>

\* "rwlock": the inner public operation takes the read lock again
Begin(w) ==
    /\ pc[w] = "begin"
    /\ CASE Design = "count" ->
              IF refused
              THEN /\ result' = [result EXCEPT ![w] = "error"]
                   /\ pc' = [pc EXCEPT ![w] = "return"]
                   /\ UNCHANGED <<active, readers>>
              ELSE /\ active' = active + 1
                   /\ pc' = [pc EXCEPT ![w] = "work"]
                   /\ UNCHANGED <<result, readers>>
         [] Design = "flag" ->
              \* the flag is tested here, the transaction is created in the next step
              IF refused
              THEN /\ result' = [result EXCEPT ![w] = "error"]
                   /\ pc' = [pc EXCEPT ![w] = "return"]
                   /\ UNCHANGED <<active, readers>>
              ELSE /\ pc' = [pc EXCEPT ![w] = "work"]
                   /\ UNCHANGED <<active, result, readers>>
         [] Design = "rwlock" ->
              /\ ~waiting /\ ~writer
              /\ readers' = readers + 1
              /\ (IF storeOpen
                  THEN pc' = [pc EXCEPT ![w] = "work"] /\ UNCHANGED result
                  ELSE pc' = [pc EXCEPT ![w] = "end"] /\ result' = [result EXCEPT ![w] = "error"])
              /\ UNCHANGED active
    /\ UNCHANGED <<left, refused, storeOpen, waiting, writer>>

\* the transaction reads and writes the store
Work(w) ==
    /\ pc[w] = "work"
    /\ result' = [result EXCEPT ![w] = IF storeOpen THEN @ ELSE "used"]
    /\ pc' = [pc EXCEPT ![w] = "end"]
    /\ UNCHANGED <<left, active, refused, storeOpen, readers, waiting, writer>>

\* commit or rollback; the operation goes on with its next transaction or returns
End(w) ==
    /\ pc[w] = "end"
    /\ active' = IF Design = "count" THEN active - 1 ELSE active
    /\ left' = [left EXCEPT ![w] = @ - 1]
    /\ IF Design = "rwlock"
       THEN /\ readers' = readers - 1            \* the inner operation returns
            /\ pc' = [pc EXCEPT ![w] = IF left[w] > 1 THEN "begin" ELSE "unlock"]
       ELSE /\ UNCHANGED readers
            /\ pc' = [pc EXCEPT ![w] = IF left[w] > 1 THEN "begin" ELSE "return"]
    /\ result' = [result EXCEPT ![w] = IF @ = "none" /\ left[w] = 1 THEN "ok" ELSE @]
    /\ UNCHANGED <<refused, storeOpen, waiting, writer>>

\* "rwlock": the outer operation releases the read lock it took when it was called
Unlock(w) ==
    /\ pc[w] = "unlock"
    /\ readers' = readers - 1
    /\ pc' = [pc EXCEPT ![w] = "return"]
    /\ UNCHANGED <<left, active, refused, storeOpen, waiting, writer, result>>

Return(w) ==
    /\ pc[w] = "return"
    /\ pc' = [pc EXCEPT ![w] = "done"]
    /\ UNCHANGED <<left, active, refused, storeOpen, readers, waiting, writer, result>>

---------------------------------------------------------------------------
(* Close *)

CloseStart ==
    /\ pc[Closer] = "close"
    /\ CASE Design = "rwlock" -> waiting' = TRUE /\ UNCHANGED refused
         [] OTHER -> refused' = TRUE /\ UNCHANGED waiting
    /\ pc' = [pc EXCEPT ![Closer] = "wait"]
    /\ UNCHANGED <<left, active, storeOpen, readers, writer, result>>

CloseStore ==
    /\ pc[Closer] = "wait"
    /\ CASE Design = "count"  -> active = 0
         [] Design = "flag"   -> TRUE
         [] Design = "rwlock" -> readers = 0
    /\ storeOpen' = FALSE
    /\ waiting' = FALSE
    /\ pc' = [pc EXCEPT ![Closer] = "done"]
    /\ UNCHANGED <<left, active, refused, readers, writer, result>>

Finished == \A p \in Procs : pc[p] = "done"

Next ==
    \/ \E w \in Workers : Call(w) \/ Begin(w) \/ Work(w) \/ End(w) \/ Unlock(w) \/ Return(w)
    \/ CloseStart \/ CloseStore
    \/ (Finished /\ UNCHANGED vars)

Spec == Init /\ [][Next]_vars /\ WF_vars(Next)

---------------------------------------------------------------------------
(* properties *)

TypeOK ==
    /\ active \in 0..Cardinality(Workers)
    /\ readers \in 0..(2 * Cardinality(Workers))
    /\ \A w \in Workers : result[w] \in {"none", "ok", "error", "used"}

\* no transaction ever touches a closed store (no panic)
NoUseAfterClose == \A w \in Workers : result[w] # "used"

\* a call that returns has a verdict: its ordinary result, or an error because the handle was closed
Returned == \A w \in Workers : pc[w] = "done" => result[w] \in {"ok", "error"}

\* Close is atomic for the callers: once the store is closed no call succeeds any more, and a call that failed
\* because of Close did not run a transaction afterwards
ClosedMeansRefused == (~storeOpen /\ Design # "rwlock") => refused

\* every call returns (absence of deadlock is checked by TLC as well: Finished stutters)
EveryCallReturns == <>Finished

=============================================================================
