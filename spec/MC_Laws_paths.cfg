SPECIFICATION Spec
CONSTANT Family = "paths"
INVARIANTS ValuesLaws CriteriaLaws RangeLaws NormLaws PathLaws
CHECK_DEADLOCK FALSE
