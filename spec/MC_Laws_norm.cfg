SPECIFICATION Spec
CONSTANT Family = "norm"
INVARIANTS ValuesLaws CriteriaLaws RangeLaws NormLaws PathLaws
CHECK_DEADLOCK FALSE
