------------------------------ MODULE TraceAux ------------------------------
(***************************************************************************)
(* Validation of self-contained observations of the real code against the  *)
(* stateless parts of the specification: value order and index keys (C10), *)
(* criteria evaluation (C16), index range scans, Intersect and IsEmpty     *)
(* (C17), normalisation and dotted paths (C18), the store cursor contract  *)
(* (C15).  Each log line carries the (abstract) input and what the real    *)
(* code returned; the invariant compares it with what the specification    *)
(* computes.                                                               *)
(***************************************************************************)
EXTENDS CloverPlan, CloverNorm, CloverStore, CloverKV, Json, IOUtils

Log == ndJsonDeserialize(IOEnv.TRACE_FILE)

VARIABLE l
TraceInit == l = 1
TraceNext == l <= Len(Log) /\ l' = l + 1
TraceSpec == TraceInit /\ [][TraceNext]_l
TraceAlias == [l |-> l]
TraceAccepted == TLCGet("stats").diameter - 1 = Len(Log)

Last == Log[l - 1]
HaveLast == l > 1

---------------------------------------------------------------------------
(* C10 *)
ValuesOk(e) ==
    LET n == Len(e.vals)
        N == 1..n
    IN \* the observed comparison is a total preorder ...
       /\ \A i \in N : e.cmp[i][i] = 0
       /\ \A i, j \in N : e.cmp[i][j] \in {-1, 0, 1} /\ e.cmp[i][j] = -e.cmp[j][i]
       /\ \A i, j, k \in N : (e.cmp[i][j] <= 0 /\ e.cmp[j][k] <= 0) => e.cmp[i][k] <= 0
       \* ... and it is the specified one
       /\ \A i, j \in N : e.cmp[i][j] = Cmp(e.vals[i], e.vals[j])
       \* index keys sort in exactly that order; equal values have equal keys, unequal
       \* values distinct keys, and no key is a proper prefix of another value's key
       /\ \A i, j \in N : (e.keydom[i] = 1 /\ e.keydom[j] = 1) =>
             /\ e.key[i][j] = Cmp(e.vals[i], e.vals[j])
             /\ e.pfx[i][j] = 0
       \* a sorted query lists them in that order, ascending and descending
       /\ Len(e.sorted) = n /\ {e.sorted[i] : i \in N} = N
       /\ \A i \in 1..(n - 1) : Cmp(e.vals[e.sorted[i]], e.vals[e.sorted[i + 1]]) <= 0
       /\ Len(e.sortedDesc) = n /\ {e.sortedDesc[i] : i \in N} = N
       /\ \A i \in 1..(n - 1) : Cmp(e.vals[e.sortedDesc[i]], e.vals[e.sortedDesc[i + 1]]) >= 0

\* the laws hold for the specification's own Cmp over the same universe
ValuesModelOk(e) ==
    LET U == {e.vals[i] : i \in DOMAIN e.vals} IN
    CmpReflexive(U) /\ CmpAntisymmetric(U) /\ CmpRanked(U) /\ \A v \in U : WFValue(v)

(* C16 *)
SatisfyOk(e) == e.obs = (IF Sat(Desugar(e.crit), e.doc) THEN "true" ELSE "false")

(* C17 *)
RangeOf(r) == IF r[1] = <<"full">> THEN FullRange
              ELSE [s |-> r[1], e |-> r[2], si |-> (r[3] = 1), ei |-> (r[4] = 1)]
ScanOk(e) ==
    /\ e.err = ""
    /\ e.obs = ScanIds(e.entries, RangeOf(e.range), e.reverse = 1, e.stop)
    /\ e.calls = Len(e.obs)
IntersectOk(e) ==
    LET U == {e.universe[i] : i \in DOMAIN e.universe} IN
    /\ IntersectSound(RangeOf(e.r1), RangeOf(e.r2), RangeOf(e.r3), U)
    /\ e.empty1 = 1 => EmptySound(RangeOf(e.r1), U)
    /\ e.empty3 = 1 => EmptySound(RangeOf(e.r3), U)

(* C18 *)
NormOk(e) ==
    LET want == Norm(e.g) IN
    IF want = Err
    THEN e.obs = <<"unchanged">>          \* an unsupported value leaves the document unchanged
    ELSE /\ e.obs = <<"set", want>>
         /\ e.again = <<"set", want>>     \* idempotent: normalising the canonical value again
NormDocOk(e) ==                           \* NewDocumentOf(struct / map)
    LET want == Norm(e.g) IN
    IF want = Err \/ want[1] # "obj" THEN e.obs = <<"nil">>
    ELSE e.obs = <<"doc", want>> /\ (e.rt \in {"same", "skipped"})

RECURSIVE PathRun(_, _, _)
\* apply Set steps; every step records Get/Has of probe paths and the sorted top-level fields
PathStepOk(d, st) ==
    /\ \A i \in DOMAIN st.probes :
          LET p == st.probes[i] IN
          /\ p[2] = (IF Has(d, p[1]) THEN 1 ELSE 0)
          /\ p[3] = Get(d, p[1])
    /\ st.fields = TopFields(d)
PathRun(d, steps, i) ==
    IF i > Len(steps) THEN TRUE
    ELSE LET v  == Norm(steps[i].g)
             \* an unsupported value leaves the document unchanged
             d2 == IF v = Err THEN d ELSE Set(d, steps[i].path, v)
         IN PathStepOk(d2, steps[i]) /\ PathRun(d2, steps, i + 1)
DocPathOk(e) == PathRun(e.init, e.steps, 1)

(* C15 *)
CursorOk(e) ==
    \* one cursor, sought twice: at most e.steps entries from the first target (the cursor stays on the last one
    \* it read), then everything from the second target on - a seek forgets where the cursor stood
    LET want  == CursorWalk(e.kv, e.pending, e.forward = 1, e.target)
        want2 == CursorWalk(e.kv, e.pending, e.forward = 1, e.target2)
        k     == IF e.steps < Len(want) THEN e.steps ELSE Len(want)
    IN
    /\ e.err = ""
    /\ e.obs = SubSeq(want, 1, k)
    /\ e.obs2 = want2
    /\ \A i \in DOMAIN e.gets : e.gets[i][2] = GetOf(e.kv, e.pending, e.gets[i][1])

(* C20: a handle closed while it is in use.  What CloverClose proves of the protocol between Begin and Close (design *)
(* "count") is what a trial must show: every call returned (EveryCallReturns), no call used a closed store (a    *)
(* panic: NoUseAfterClose), and no call succeeded once Close had returned (ClosedMeansRefused).                  *)
CloseRaceOk(e) == e.blocked = 0 /\ e.panics = 0 /\ e.okafterclose = 0

(* C02: the range the planner derives for the selected index field contains the field value of  *)
(* every satisfying document (so an index range scan followed by the filter loses nothing), and  *)
(* a range reported empty admits no satisfying document.                                         *)
PlanOk(e) ==
    /\ e.panicked = 0
    /\ \A i \in DOMAIN e.ranges :
          LET f == e.ranges[i][1]
              r == RangeOf(e.ranges[i][2])
          IN \A k \in DOMAIN e.docs :
                Sat(Desugar(e.crit), e.docs[k]) =>
                   /\ InRange(Get(e.docs[k], f), r)
                   /\ e.ranges[i][3] = 0

\* advisory (never a verdict): the planner model of CloverPlan.tla agrees with the real visitors
PlanModelOk(e) ==
    LET F == {e.indexed[i] : i \in DOMAIN e.indexed}
        p == Plan(Desugar(e.crit), F)
    IN /\ e.selected = p.sel
       /\ IF IsNoRange(p.range) THEN e.ranges = <<>>
          ELSE /\ Len(e.ranges) = 1
               /\ e.ranges[1][1] = p.field
               /\ RangeOf(e.ranges[1][2]) = p.range
               /\ e.ranges[1][3] = (IF IsEmptyM(p.range) THEN 1 ELSE 0)
InvPlanModel == (HaveLast /\ Last.kind = "plan" /\ Last.panicked = 0) => PlanModelOk(Last)

(* C06 C13 C14: the keys the code sets, deletes and seeks for a collection, a document and an     *)
(* index are the ones CloverKV builds (whose isolation laws MC_KV checks for all names).           *)
SetOf(x) == {x[i] : i \in DOMAIN x}
KeysOk(e) ==
    LET M  == MetaKey(e.name)
        D  == DocKey(e.name, e.id)
        DP == DocPrefix(e.name)
        IP == IdxPrefix(e.name, e.field)
        En == e.entry
        PhaseOk(ph) ==
            /\ ph.st = "ok"
            /\ SetOf(ph.gets) \subseteq {M, D}
            /\ CASE ph.ph = "create"         -> SetOf(ph.sets) = {M} /\ ph.dels = <<>> /\ ph.seeks = <<>>
                 [] ph.ph = "insert"         -> SetOf(ph.sets) = {M, D} /\ ph.dels = <<>>
                 [] ph.ph = "createindex"    -> SetOf(ph.sets) = {M, En} /\ ph.dels = <<>> /\ SetOf(ph.seeks) = {DP}
                 [] ph.ph = "scan"           -> ph.sets = <<>> /\ ph.dels = <<>> /\ SetOf(ph.seeks) = {DP}
                 [] ph.ph = "indexscan"      -> /\ ph.sets = <<>> /\ ph.dels = <<>>
                                                /\ \A k \in SetOf(ph.seeks) : k = DP \/ HasPrefix(k, IP)
                 \* a backwards visit of the index starts inside the index's own prefix
                 [] ph.ph = "revscan"        -> /\ ph.sets = <<>> /\ ph.dels = <<>>
                                                /\ \A k \in SetOf(ph.seeks) : k = DP \/ HasPrefix(k, IP)
                 [] ph.ph = "list"           -> ph.sets = <<>> /\ ph.dels = <<>> /\ SetOf(ph.seeks) = {MetaPrefix}
                 [] ph.ph = "dropindex"      -> SetOf(ph.sets) = {M} /\ SetOf(ph.dels) = {En} /\ SetOf(ph.seeks) = {IP}
                 [] ph.ph = "dropcollection" -> /\ SetOf(ph.sets) \subseteq {M} /\ SetOf(ph.dels) = {M, D, En}
                                                /\ \A k \in SetOf(ph.seeks) : k = DP \/ k = IP
    IN /\ Free(e.name) /\ Free(e.field)
       /\ \E t \in TypeIds : HasPrefix(En, IdxTypePrefix(e.name, e.field, t))
       /\ Len(En) >= Len(e.id) /\ Suffix(En, Len(e.id)) = e.id
       /\ \A i \in DOMAIN e.phases : PhaseOk(e.phases[i])

LineOk(e) ==
    CASE e.kind = "values"    -> ValuesOk(e) /\ ValuesModelOk(e)
      [] e.kind = "satisfy"   -> SatisfyOk(e)
      [] e.kind = "scan"      -> ScanOk(e)
      [] e.kind = "intersect" -> IntersectOk(e)
      [] e.kind = "norm"      -> NormOk(e)
      [] e.kind = "normdoc"   -> NormDocOk(e)
      [] e.kind = "docpath"   -> DocPathOk(e)
      [] e.kind = "cursor"    -> CursorOk(e)
      [] e.kind = "closerace" -> CloseRaceOk(e)
      [] e.kind = "plan"      -> PlanOk(e)
      [] e.kind = "keys"      -> KeysOk(e)
      [] e.kind = "Reset"     -> TRUE

InvAux == HaveLast => LineOk(Last)

\* C20: the public query / index / document / store-facing APIs return normally
InvAuxNoPanic ==
    HaveLast =>
       CASE Last.kind = "satisfy" -> Last.obs # "panic"
         [] Last.kind \in {"scan", "cursor", "plan"} -> Last.panicked = 0
         [] Last.kind = "closerace" -> CloseRaceOk(Last)
         [] Last.kind \in {"norm", "normdoc"} -> Last.obs # <<"panic">>
         [] OTHER -> TRUE

=============================================================================
