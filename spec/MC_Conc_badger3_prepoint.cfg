SPECIFICATION Spec
CONSTANTS
  Backend = "badger"
  MetaAlways = TRUE
  PointMeta = FALSE
  Gs = {1, 2, 3}
  IdSet = {1, 2}
  WithReads = FALSE
  Vals = {1, 2}
INVARIANTS Linearizable Consistent
CHECK_DEADLOCK FALSE
