SPECIFICATION MCSpec
CONSTANTS
  CollPool <- OneColl
  NIds = 2
  XVals <- XValsTiny
  YVals <- YValsTiny
  LitPool <- LitTiny
  IdxFields <- IdxBoth
  QueryLevel = 0
  Emit = FALSE
  MaxHist = 6
VIEW MCView
CONSTRAINT HistBound
INVARIANTS MCTypeOK MCInv
PROPERTIES OthersUntouched IdsStable ReadsPure
CHECK_DEADLOCK FALSE
