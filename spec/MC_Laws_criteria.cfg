SPECIFICATION Spec
CONSTANT Family = "criteria"
INVARIANTS ValuesLaws CriteriaLaws RangeLaws NormLaws PathLaws
CHECK_DEADLOCK FALSE
