------------------------------ MODULE MC_Laws ------------------------------
(***************************************************************************)
(* Exhaustive small-universe checks of the laws the stateless parts of the *)
(* specification must obey (C10, C16, C17, C18).  Each enumerated case is  *)
(* one initial state, so TLC's state count measures the enumeration and a  *)
(* failing case is reported as a counterexample state.                     *)
(***************************************************************************)
EXTENDS CloverIndex, CloverNorm

CONSTANT Family      \* "values" | "criteria" | "ranges" | "norm" | "paths"

VARIABLE case
Next == UNCHANGED case
vars == <<case>>

---------------------------------------------------------------------------
N(o, r) == <<"num", o, r>>
S(b)    == <<"str", b>>
UVals == { Nil, N(4, "i"), N(4, "f"), N(6, "i"), N(6, "u"), N(6, "f"), N(6, "f-"), N(7, "f"), N(8, "i"), N(8, "f"),
           N(22, "f"), S(<<>>), S(<<97>>), S(<<97, 0>>), S(<<97, 98>>), S(<<98>>), S(<<255>>), S(<<0>>),
           <<"bool", 0>>, <<"bool", 1>>, <<"time", 0, 0>>, <<"time", 0, 2>>, <<"time", 3, 1>>,
           <<"arr", <<>> >>, <<"arr", <<Nil>> >>, <<"arr", <<N(6, "i")>> >>, <<"arr", <<N(6, "i"), N(8, "i")>> >>,
           <<"arr", <<N(8, "i")>> >>, <<"arr", << <<"arr", <<>> >> >> >>,
           <<"obj", <<>> >>, <<"obj", << <<<<97>>, N(6, "i")>> >> >>, <<"obj", << <<<<97>>, N(8, "i")>> >> >>,
           <<"obj", << <<<<97>>, N(6, "i")>>, <<<<98>>, Nil>> >> >>, <<"obj", << <<<<97, 98>>, N(6, "i")>> >> >> }

FA == <<97>>
FB == <<98>>
FAB == <<97, 46, 98>>
DVals == { Nil, N(6, "i"), N(8, "f"), S(<<97>>), <<"arr", <<N(6, "i"), N(8, "i")>> >>, <<"obj", << <<FB, N(8, "i")>> >> >> }
UDocs == { EmptyObj } \cup { <<"obj", << <<FA, v>> >> >> : v \in DVals }
          \cup { <<"obj", << <<FA, v>>, <<FB, w>> >> >> : v \in {N(6, "i"), Nil}, w \in {N(6, "f"), S(<<97>>)} }
LVals == { Nil, N(6, "i"), N(8, "i"), S(<<97>>) }
ULeaves == { Un(op, f, Lit(v)) : op \in {"eq", "gt", "gte", "lt", "lte"}, f \in {FA, FAB}, v \in LVals }
           \cup { Un("exists", f, NoCrit) : f \in {FA, FB, FAB} }
           \cup { Un("in", FA, <<"list", <<Lit(v), <<"ref", FB>> >> >>) : v \in LVals }
           \cup { Un("in", FA, <<"list", <<>> >>) }
           \cup { Un("contains", FA, <<"list", <<Lit(v)>> >>) : v \in LVals }
           \cup { Un("contains", FA, <<"list", <<>> >>) }
           \cup { Un("eq", FA, <<"ref", FB>>), Un("lt", FA, <<"dollar", FB>>),
                  Un("like", FA, <<"pat", "prefix", <<97>> >>), Un("fn", <<>>, <<"fn", "has", FB>>) }

URanges == { [s |-> s, e |-> e, si |-> si, ei |-> ei] :
               s \in {NoBound, N(6, "i"), N(8, "f"), S(<<97>>)}, e \in {NoBound, N(6, "i"), N(8, "f"), S(<<97>>)},
               si \in BOOLEAN, ei \in BOOLEAN }

GScalars == { <<"nil">>, <<"int", 6, 8, 1>>, <<"int", 8, 64, 0>>, <<"uint", 8, 16, 0>>, <<"float", 6, 32, 1>>,
              <<"string", <<>> >>, <<"string", <<97>> >>, <<"bool", 0>>, <<"bool", 1>>, <<"time", 2, 1>>,
              <<"nilptr">>, <<"unsupported">> }
G1 == GScalars \cup { <<"ptr", g>> : g \in GScalars } \cup { <<"ptr", <<"ptr", g>> >> : g \in GScalars }
G2 == G1 \cup { <<"slice", <<g, h>> >> : g, h \in GScalars }
         \cup { <<"array", <<g>> >> : g \in GScalars }
         \cup { <<"map", k, << <<FA, g>> >> >> : k \in {0, 1}, g \in GScalars }
         \cup { <<"struct", << <<FA, t, o, 0, x, g>>, <<FB, <<>>, 0, 0, 1, <<"bool", 1>> >> >> >> :
                   t \in {<<>>, <<110>>}, o \in {0, 1}, x \in {0, 1}, g \in GScalars }
         \cup { <<"struct", << <<FA, <<>>, 0, 1, 1, <<"struct", << <<FB, <<>>, 0, 0, 1, g>> >> >> >>,
                               <<FB, <<>>, 0, 0, 1, <<"bool", 0>> >> >> >> : g \in GScalars }

UPaths == { FA, FB, FAB, <<97, 46, 98, 46, 97>>, <<>>, <<97, 46, 46, 98>>, <<46>> }

Cases ==
    CASE Family = "values"   -> UVals \X UVals \X UVals
      [] Family = "criteria" -> ULeaves \X ULeaves \X UDocs
      [] Family = "ranges"   -> URanges \X URanges
      [] Family = "norm"     -> G2
      [] Family = "paths"    -> UDocs \X UPaths \X DVals

Init == case \in Cases
Spec == Init /\ [][Next]_vars

---------------------------------------------------------------------------
ValuesLaws ==
    Family = "values" =>
       LET u == case[1] v == case[2] w == case[3] IN
       /\ WFValue(u)
       /\ Cmp(u, u) = 0
       /\ Cmp(u, v) = -Cmp(v, u)
       /\ (Cmp(u, v) <= 0 /\ Cmp(v, w) <= 0) => Cmp(u, w) <= 0
       /\ Rank(u) < Rank(v) => Cmp(u, v) < 0
       /\ Cmp(u, v) \in {-1, 0, 1}

CriteriaLaws ==
    Family = "criteria" =>
       LET a == case[1] b == case[2] d == case[3] IN
       /\ WFCrit(a)
       /\ Sat(Not(And(a, b)), d) = Sat(Or(Not(a), Not(b)), d)        \* De Morgan
       /\ Sat(Not(Or(a, b)), d)  = Sat(And(Not(a), Not(b)), d)
       /\ Sat(Not(Not(a)), d) = Sat(a, d)                            \* double negation
       /\ Sat(And(a, b), d) = (Sat(a, d) /\ Sat(b, d))               \* truth tables
       /\ Sat(Or(a, b), d)  = (Sat(a, d) \/ Sat(b, d))
       \* Neq is Not(Eq); NotExists the negation of Exists; In is a disjunction of equalities
       /\ (a[2] = "eq") => (Sat(Neq(a[3], a[4]), d) = ~Sat(a, d))
       /\ (a[2] = "exists") => (Sat(NotExists(a[3]), d) = ~Has(d, a[3]))
       /\ (a[2] = "in") =>
             (Sat(a, d) = \E i \in DOMAIN a[4][2] : Cmp(OperandVal(a[4][2][i], d), Get(d, a[3])) = 0)
       \* an absent field fails Eq and Exists, and behaves as nil for the ordering comparisons
       /\ (a[2] \in {"eq", "exists"} /\ ~Has(d, a[3])) => ~Sat(a, d)
       /\ (a[2] \in {"gt", "gte", "lt", "lte"} /\ ~Has(d, a[3])) =>
             (Sat(a, d) = Sat(a, Set(d, a[3], Nil)))

\* the reference intersection of two ranges is their conjunction; emptiness is decidable on a
\* universe dense around the bounds
RangeLaws ==
    Family = "ranges" =>
       LET r1 == case[1] r2 == case[2] IN
       /\ \A v \in UVals : InRange(v, r1) => (IsNilRange(r1) => v = Nil)
       /\ IsNilRange(r1) => \A v \in UVals : InRange(v, r1) <=> v[1] = "nil"
       /\ (r1.s = NoBound /\ ~r1.si /\ r1.e = NoBound /\ ~r1.ei) => \A v \in UVals : InRange(v, r1)
       /\ \A v, w \in UVals : (InRange(v, r1) /\ InRange(w, r1) /\ Cmp(v, w) <= 0) =>
              \A x \in UVals : (Cmp(v, x) <= 0 /\ Cmp(x, w) <= 0) => InRange(x, r1)     \* ranges are convex
       /\ ScanIds(<< <<N(6, "i"), <<1>> >>, <<N(8, "f"), <<2>> >>, <<N(6, "f"), <<3>> >> >>, r1, FALSE, 0)
            = [i \in DOMAIN ScanIds(<< <<N(6, "i"), <<1>> >>, <<N(8, "f"), <<2>> >>, <<N(6, "f"), <<3>> >> >>, r1, TRUE, 0) |->
                 ScanIds(<< <<N(6, "i"), <<1>> >>, <<N(8, "f"), <<2>> >>, <<N(6, "f"), <<3>> >> >>, r1, TRUE, 0)[
                    Len(ScanIds(<< <<N(6, "i"), <<1>> >>, <<N(8, "f"), <<2>> >>, <<N(6, "f"), <<3>> >> >>, r1, TRUE, 0)) + 1 - i]]

NormLaws ==
    Family = "norm" =>
       LET g == case IN
       /\ Norm(g) # Err => WFValue(Norm(g))
       /\ Norm(g) # Err => Norm(Embed(Norm(g))) = Norm(g)            \* idempotent
       /\ g[1] = "ptr" => Norm(g) = Norm(g[2])                        \* pointers are followed

PathLaws ==
    Family = "paths" =>
       LET d == case[1] p == case[2] v == case[3] IN
       /\ Has(Set(d, p, v), p) /\ Get(Set(d, p, v), p) = v            \* Set / Get / Has agree
       /\ Set(Set(d, p, v), p, v) = Set(d, p, v)
       /\ ~Has(d, p) => Get(d, p) = Nil
       /\ WFValue(Set(d, p, v))

=============================================================================
