------------------------------ MODULE TraceLin ------------------------------
(***************************************************************************)
(* C07: linearizability of concurrent histories of the real code against   *)
(* Clover.tla.                                                             *)
(*                                                                         *)
(* The log holds, in real-time (ticket) order, a "call" line and a "ret"    *)
(* line per operation (the call line carries the arguments and - recorded  *)
(* when the call returned - the outcome), a "reset" line per history and a *)
(* final "audit" line.  The silent action Lin(g) makes the pending         *)
(* operation of goroutine g take effect atomically, at that instant, on    *)
(* the abstract database: it is enabled only if the recorded outcome is    *)
(* one the specification admits in the current state.  A history is        *)
(* linearizable iff TLC can consume the whole log; since the spec branches *)
(* (the choice of linearization points) acceptance is by high-water mark.  *)
(* A write rejected by the store because of a conflict (badger) may fail   *)
(* at any point provided it then has no effect.                            *)
(***************************************************************************)
EXTENDS Clover, Json, IOUtils

Log == ndJsonDeserialize(IOEnv.TRACE_FILE)

VARIABLES l,      \* next log line
          pend    \* goroutine -> [at : its call line, lin : already linearized]

lvars == <<cat, files, open, l, pend>>

ASSUME TLCSet(1, 0)

LinInit == Init /\ l = 1 /\ pend = <<>>

Without(f, g) == [x \in DOMAIN f \ {g} |-> f[x]]

ResetEv ==
    /\ l <= Len(Log) /\ Log[l].t = "reset"
    /\ pend = <<>>
    /\ cat' = <<>> /\ files' = <<>> /\ open' = TRUE /\ pend' = <<>>
    /\ l' = l + 1

CallEv ==
    /\ l <= Len(Log) /\ Log[l].t = "call"
    /\ Log[l].g \notin DOMAIN pend
    /\ pend' = [x \in DOMAIN pend \cup {Log[l].g} |-> IF x = Log[l].g THEN [at |-> l, lin |-> FALSE] ELSE pend[x]]
    /\ l' = l + 1
    /\ UNCHANGED vars

RetEv ==
    /\ l <= Len(Log) /\ Log[l].t = "ret"
    /\ Log[l].g \in DOMAIN pend
    /\ pend[Log[l].g].lin
    /\ pend' = Without(pend, Log[l].g)
    /\ l' = l + 1
    /\ UNCHANGED vars

\* the quiescent end of a history: the key space must be the abstract state
AuditEv ==
    /\ l <= Len(Log) /\ Log[l].t = "audit"
    /\ pend = <<>>
    /\ AuditOk(Log[l].audit, cat) = TRUE
    /\ l' = l + 1
    /\ UNCHANGED <<vars, pend>>

Conflict(r) == "conflict" \in DOMAIN r

Lin(g) ==
    /\ g \in DOMAIN pend
    /\ ~pend[g].lin
    /\ LET e   == Log[pend[g].at]
           r   == e.res
           run == [res |-> r]
       IN \* Close takes effect at one instant like any other call: from then on every call fails and changes nothing
          \/ /\ e.op = "Close" /\ r.st = "ok"
             /\ open' = FALSE
             /\ UNCHANGED <<cat, files>>
          \/ /\ ~open /\ e.op # "Close" /\ r.st = "err"
             /\ UNCHANGED vars
          \/ /\ open /\ e.op # "Close" /\ r.st = "ok"
             /\ (/\ CanOk(cat, files, e)
                 /\ HintOk(cat, files, e, HintOf(e, run, cat, files))
                 /\ ValOk(e, run, cat)
                 /\ CallsOk(e, run, cat)) = TRUE
             /\ cat' = NextCat(cat, files, e, HintOf(e, run, cat, files))
             /\ files' = NextFiles(cat, files, e)
             /\ UNCHANGED open
          \/ /\ open /\ e.op # "Close" /\ r.st = "err"
             /\ (r.err \in Errs(cat, files, e) \/ (Conflict(r) /\ e.op \in WriteOps)) = TRUE
             /\ UNCHANGED vars
    /\ pend' = [pend EXCEPT ![g].lin = TRUE]
    /\ UNCHANGED l

LinNext == ResetEv \/ CallEv \/ RetEv \/ AuditEv \/ \E g \in DOMAIN pend : Lin(g)
LinSpec == LinInit /\ [][LinNext]_lvars

\* high-water mark of the consumed prefix
HighWater == TLCSet(1, IF l > TLCGet(1) THEN l ELSE TLCGet(1))
Accepted == PrintT(<<"HIGHWATER", TLCGet(1), Len(Log)>>) /\ TLCGet(1) = Len(Log) + 1

=============================================================================
