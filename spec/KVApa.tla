------------------------------- MODULE KVApa -------------------------------
(***************************************************************************)
(* The key-layout laws of CloverKV.tla for ALL byte values, checked        *)
(* symbolically by Apalache (MC_KV checks them exhaustively with TLC for a *)
(* small alphabet made of the layout's own bytes): collection and field    *)
(* names of up to 4 bytes each over 0..255 except the reserved ';', ids    *)
(* and entry bodies of up to 4 arbitrary bytes.  The operators repeat      *)
(* those of CloverKV with Apalache type annotations (Apalache needs the    *)
(* annotations; TLC ignores this module).                                  *)
(***************************************************************************)
EXTENDS Integers, Sequences, Apalache

VARIABLES
  \* @type: Seq(Int);
  n,
  \* @type: Seq(Int);
  n2,
  \* @type: Seq(Int);
  f,
  \* @type: Seq(Int);
  f2,
  \* @type: Seq(Int);
  id,
  \* @type: Seq(Int);
  rest

SEMI == 59
\* @type: (Seq(Int), Seq(Int)) => Bool;
HasPrefix(k, p) == Len(p) <= Len(k) /\ \A i \in DOMAIN p : k[i] = p[i]
\* @type: Seq(Int);
MetaPrefix == <<99, 111, 108, 108, 58>>
\* @type: (Seq(Int)) => Seq(Int);
MetaKey(x) == MetaPrefix \o x
\* @type: (Seq(Int)) => Seq(Int);
CollRoot(x) == <<99, 58>> \o x \o <<SEMI>>
\* @type: (Seq(Int)) => Seq(Int);
DocPrefix(x) == CollRoot(x) \o <<100, 58>>
\* @type: (Seq(Int), Seq(Int)) => Seq(Int);
DocKey(x, i) == DocPrefix(x) \o i
\* @type: (Seq(Int), Seq(Int)) => Seq(Int);
IdxPrefix(x, g) == CollRoot(x) \o <<105, 58>> \o g \o <<SEMI>>

\* @type: (Seq(Int)) => Bool;
Bytes(s) == \A i \in DOMAIN s : s[i] \in 0..255
\* @type: (Seq(Int)) => Bool;
Free(s) == Bytes(s) /\ \A i \in DOMAIN s : s[i] # SEMI

Init ==
  /\ n = Gen(4) /\ n2 = Gen(4) /\ f = Gen(4) /\ f2 = Gen(4) /\ id = Gen(4) /\ rest = Gen(4)
  /\ Free(n) /\ Free(n2) /\ Free(f) /\ Free(f2) /\ Bytes(id) /\ Bytes(rest)
\* the `reserved` variant: names may contain the separator
InitSemi ==
  /\ n = Gen(4) /\ n2 = Gen(4) /\ f = Gen(4) /\ f2 = Gen(4) /\ id = Gen(4) /\ rest = Gen(4)
  /\ Bytes(n) /\ Bytes(n2) /\ Bytes(f) /\ Bytes(f2) /\ Bytes(id) /\ Bytes(rest)
Next == UNCHANGED <<n, n2, f, f2, id, rest>>

Entry == IdxPrefix(n, f) \o rest

MetaLaw ==
  /\ ~HasPrefix(DocKey(n, id), MetaPrefix)
  /\ ~HasPrefix(Entry, MetaPrefix)
  /\ ~HasPrefix(MetaKey(n), CollRoot(n2))
  /\ (MetaKey(n) = MetaKey(n2)) <=> (n = n2)
DocLaw ==
  /\ HasPrefix(DocKey(n, id), DocPrefix(n2)) <=> (n = n2)
  /\ ~HasPrefix(DocKey(n, id), IdxPrefix(n2, f2))
IdxLaw ==
  /\ ~HasPrefix(Entry, DocPrefix(n2))
  /\ HasPrefix(Entry, IdxPrefix(n2, f2)) <=> (n = n2 /\ f = f2)
RootLaw ==
  (n2 # n) => (~HasPrefix(DocKey(n2, id), CollRoot(n)) /\ ~HasPrefix(IdxPrefix(n2, f2) \o rest, CollRoot(n)))

KVLaws == MetaLaw /\ DocLaw /\ IdxLaw /\ RootLaw
=============================================================================
