SPECIFICATION MCSpec
CONSTANTS
  CollPool <- OneColl
  NIds = 2
  XVals <- XValsSmall
  YVals <- YValsSmall
  LitPool <- LitSmall
  IdxFields <- IdxBoth
  QueryLevel = 2
  Emit = TRUE
  MaxHist = 8
VIEW MCView
CONSTRAINT HistBound
INVARIANTS MCTypeOK MCInv EmitState
CHECK_DEADLOCK FALSE
