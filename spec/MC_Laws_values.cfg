SPECIFICATION Spec
CONSTANT Family = "values"
INVARIANTS ValuesLaws CriteriaLaws RangeLaws NormLaws PathLaws
CHECK_DEADLOCK FALSE
