SPECIFICATION Spec
CONSTANTS
  Alpha = {99, 100, 105, 58, 59}
  MaxName = 3
  MaxField = 1
  IdAlpha = {100, 58}
  IdLens = {1}
  RestAlpha = {100, 58}
  MaxRest = 1
  Codes <- CodesA
  FixedLen = 1
INVARIANTS Layout
CHECK_DEADLOCK FALSE
