SPECIFICATION Spec
CONSTANT Family = "plan"
INVARIANTS PlanLaws
CHECK_DEADLOCK FALSE
