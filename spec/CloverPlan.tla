----------------------------- MODULE CloverPlan -----------------------------
(***************************************************************************)
(* L2 (part): the query planner as the code computes it (visit.go,         *)
(* plan.go:getIndexQueries, index/range.go), transcribed action by action: *)
(*   NF        NotFlattenVisitor  (negation push-down, used for planning)  *)
(*   IdxSel    IndexSelectVisitor (usable index fields per And / Or node)  *)
(*   LeafRange unaryCriteriaToRange                                         *)
(*   FR        FieldRangeVisitor  (per-field ranges, intersected under And)*)
(*   IntersectM / IsEmptyM        Range.Intersect / Range.IsEmpty          *)
(* and the law that makes index range scans safe (C02):                    *)
(*   RangeSuperset: the range derived for the selected field contains the  *)
(*   field value of every document satisfying the criteria, and is not     *)
(*   reported empty when such a document exists.                           *)
(* MC_Plan checks the law exhaustively over small criteria trees; TraceAux *)
(* compares the model with what the real visitors return (model drift is   *)
(* reported as such, never as a violation: a refactoring may plan          *)
(* differently) and checks the law on the *observed* ranges (a violation). *)
(***************************************************************************)
EXTENDS CloverIndex

NoRange == [none |-> TRUE]
IsNoRange(r) == "none" \in DOMAIN r

CmpBound(a, b) == Cmp(BoundVal(a), BoundVal(b))      \* internal.Compare on Go values, nil for an open end

---------------------------------------------------------------------------
RECURSIVE NF(_), NFNot(_)

\* VisitNotCriteria(Not(x))
NFNot(x) ==
    CASE x[1] = "un" ->
            CASE x[2] = "eq"  -> <<"or", <<"un", "lt", x[3], x[4]>>, <<"un", "gt", x[3], x[4]>> >>
              [] x[2] = "lt"  -> <<"un", "gte", x[3], x[4]>>
              [] x[2] = "lte" -> <<"un", "gt", x[3], x[4]>>
              [] x[2] = "gt"  -> <<"un", "lte", x[3], x[4]>>
              [] x[2] = "gte" -> <<"un", "lt", x[3], x[4]>>
              [] OTHER        -> <<"not", x>>                     \* In, Like, Exists, Contains, Fn: kept
      [] x[1] = "and" -> <<"or", NFNot(x[2]), NFNot(x[3])>>
      [] x[1] = "or"  -> <<"and", NFNot(x[2]), NFNot(x[3])>>
      [] x[1] = "not" -> NF(x[2])                                 \* double negation (inner flattened)

NF(c) ==
    CASE c[1] = "un"  -> c
      [] c[1] \in {"and", "or"} -> <<c[1], NF(c[2]), NF(c[3])>>
      [] c[1] = "not" -> NFNot(c[2])

---------------------------------------------------------------------------
RECURSIVE IdxSel(_, _)
\* sequence of indexed fields the node can be answered through
IdxSel(c, F) ==
    CASE c[1] = "un"  -> IF c[3] \in F THEN <<c[3]>> ELSE <<>>
      [] c[1] = "and" ->
            LET l == IdxSel(c[2], F) r == IdxSel(c[3], F) IN
            IF Len(l) > 0 /\ Len(l) < Len(r) THEN l ELSE r
      [] c[1] = "or"  ->
            LET l == IdxSel(c[2], F) r == IdxSel(c[3], F) IN
            IF l = <<>> \/ r = <<>> THEN <<>> ELSE l \o r
      [] c[1] = "not" -> <<>>

---------------------------------------------------------------------------
IsRefOperand(o) == o[1] \in {"ref", "dollar"}

LeafRange(c) ==
    LET o == c[4] IN
    IF c[2] \notin {"eq", "lt", "lte", "gt", "gte"} THEN NoRange
    ELSE IF IsRefOperand(o) THEN NoRange                          \* bound depends on the document
    ELSE IF o[2] = Nil /\ c[2] # "eq" THEN NoRange                \* a nil bound would read as an open end
    ELSE LET v == IF o[2] = Nil THEN NoBound ELSE o[2] IN
         CASE c[2] = "eq"  -> [s |-> v, e |-> v, si |-> TRUE, ei |-> TRUE]
           [] c[2] = "lt"  -> [s |-> NoBound, e |-> v, si |-> FALSE, ei |-> FALSE]
           [] c[2] = "lte" -> [s |-> NoBound, e |-> v, si |-> FALSE, ei |-> TRUE]
           [] c[2] = "gt"  -> [s |-> v, e |-> NoBound, si |-> FALSE, ei |-> FALSE]
           [] c[2] = "gte" -> [s |-> v, e |-> NoBound, si |-> TRUE, ei |-> FALSE]

\* Range.Intersect, receiver r, argument r2
IntersectM(r, r2) ==
    LET cs == CmpBound(r2.s, r.s)
        s1 == IF cs > 0 THEN [v |-> r2.s, i |-> r2.si]
              ELSE IF cs = 0 THEN [v |-> r.s, i |-> r.si /\ r2.si]
              ELSE IF r.s = NoBound THEN [v |-> r2.s, i |-> r2.si]
              ELSE [v |-> r.s, i |-> r.si]
        ce == CmpBound(r2.e, r.e)
        e1 == IF ce < 0 THEN [v |-> r2.e, i |-> r2.ei]
              ELSE IF ce = 0 THEN [v |-> r.e, i |-> r.ei /\ r2.ei]
              ELSE IF r.e = NoBound THEN [v |-> r2.e, i |-> r2.ei]
              ELSE [v |-> r.e, i |-> r.ei]
    IN [s |-> s1.v, e |-> e1.v, si |-> s1.i, ei |-> e1.i]

IsEmptyM(r) ==
    IF (r.s = NoBound /\ ~r.si /\ r.e # NoBound) \/ (r.e = NoBound /\ ~r.ei /\ r.s # NoBound) THEN FALSE
    ELSE LET c == CmpBound(r.s, r.e) IN c > 0 \/ (c = 0 /\ ~r.si /\ ~r.ei)

RECURSIVE FR(_, _)
\* the range derived for field f (NoRange: none)
FR(c, f) ==
    CASE c[1] = "un"  -> IF c[3] = f THEN LeafRange(c) ELSE NoRange
      [] c[1] = "or"  -> NoRange                       \* a disjunction restricts nothing
      [] c[1] = "and" ->
            LET l == FR(c[2], f) r == FR(c[3], f) IN
            IF IsNoRange(l) THEN r ELSE IF IsNoRange(r) THEN l ELSE IntersectM(l, r)
      [] c[1] = "not" -> FR(c[2], f)                   \* (only Not over In/Like/Exists/Contains/Fn survives NF)

\* what getIndexQueries ends up with: the field scanned and its range
Plan(c, F) ==
    LET flat == NF(c)
        sel  == IdxSel(flat, F)
    IN IF sel = <<>> THEN [field |-> <<>>, range |-> NoRange, sel |-> sel]
       ELSE [field |-> sel[1], range |-> FR(flat, sel[1]), sel |-> sel]

\* NF preserves meaning; the derived range loses no satisfying document
NFSound(c, d) == Sat(NF(c), d) = Sat(c, d)
RangeSuperset(c, F, d) ==
    LET p == Plan(c, F) IN
    (~IsNoRange(p.range) /\ Sat(c, d)) => (InRange(Get(d, p.field), p.range) /\ ~IsEmptyM(p.range))

=============================================================================
