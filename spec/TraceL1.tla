------------------------------ MODULE TraceL1 ------------------------------
(***************************************************************************)
(* Trace validation of sequential executions of the real clover code       *)
(* against Clover.tla (DESIGN.md 5.2).                                     *)
(*                                                                         *)
(* The log (ndjson, path in $TRACE_FILE) is a concatenation of traces;     *)
(* each starts with a "Reset" event.  Every other line is one public call: *)
(* op + abstract arguments + `runs`, one record per backend the call was   *)
(* executed on: res = outcome and abstracted return value, audit = the     *)
(* projected key space after the call.                                     *)
(*                                                                         *)
(* The specification state advances by the specification's own transition  *)
(* (never by copying what was observed); what was observed is compared     *)
(* with it by the invariants below, one family per property, so that a     *)
(* mismatch is an ordinary TLC counterexample whose last state holds the   *)
(* expectation and whose index l - 1 names the offending log line.         *)
(***************************************************************************)
EXTENDS Clover, Json, IOUtils

Log == ndJsonDeserialize(IOEnv.TRACE_FILE)

VARIABLES l,                    \* next log line
          pcat, pfiles, popen,  \* the state before the last consumed line
          alt                   \* the database if the operation in flight at a crash took effect

tvars == <<cat, files, open, l, pcat, pfiles, popen, alt>>

TraceInit ==
    /\ Init
    /\ l = 1
    /\ pcat = <<>> /\ pfiles = <<>> /\ popen = TRUE
    /\ alt = <<>>

HasF(r, k) == k \in DOMAIN r
Faulted(e) == HasF(e, "fault") /\ e.fault.fired = 1
InFlight(e) == HasF(e, "inflight")

\* an ordinary call: the specification's own transition
ConsumeNormal(e, run) ==
    \* a call during which the store reported a failure: it must fail and change nothing
    IF Faulted(e) THEN UNCHANGED vars
    ELSE IF ~open THEN Closed(e)
    ELSE IF /\ run.res.st = "ok"
            /\ CanOk(cat, files, e)
            /\ HintOk(cat, files, e, HintOf(e, run, cat, files))
         THEN Succeed(e, HintOf(e, run, cat, files))
         ELSE UNCHANGED vars     \* failed, or not an admissible success (flagged by the invariants)

Consume ==
    /\ l <= Len(Log)
    /\ l' = l + 1
    /\ pcat' = cat /\ pfiles' = files /\ popen' = open
    /\ LET e   == Log[l]
           run == e.runs[1]
       IN IF e.op = "Reset"
          THEN cat' = <<>> /\ files' = <<>> /\ open' = TRUE /\ alt' = <<>>
          \* the operation in flight when the process was killed: entirely present or entirely absent
          ELSE IF InFlight(e)
          THEN /\ UNCHANGED vars
               /\ alt' = IF (CanOk(cat, files, e) /\ HintOk(cat, files, e, HintOf(e, run, cat, files)))
                          THEN NextCat(cat, files, e, HintOf(e, run, cat, files)) ELSE cat
          \* after the crash: whichever of the two the reopened store shows is the state from now on
          ELSE IF e.op = "CrashReopen"
          THEN /\ cat' = IF HasF(run, "audit") /\ HasF(run.audit, "colls") /\ AuditOk(run.audit, alt) THEN alt ELSE cat
               /\ alt' = cat'
               /\ UNCHANGED <<files, open>>
          ELSE /\ ConsumeNormal(e, run)
               /\ alt' = cat'

TraceNext == Consume
TraceSpec == TraceInit /\ [][TraceNext]_tvars

TraceAlias == [l |-> l]

\* the whole log was consumed (deterministic spec: one state per line)
TraceAccepted == TLCGet("stats").diameter - 1 = Len(Log)

---------------------------------------------------------------------------
Last == Log[l - 1]
HaveLast == l > 1 /\ Last.op # "Reset"

\* P holds for every run of the last consumed event (handle open before it)
ForRuns(P(_, _)) ==
    (HaveLast /\ popen) => \A i \in DOMAIN Last.runs : P(Last, Last.runs[i])

OkRun(e, r) == r.res.st = "ok" /\ CanOk(pcat, pfiles, e)

QueryReadOps == {"FindAll", "ForEach", "IterateDocs", "FindFirst", "Count", "Exists", "Derived", "FindById"}

---------------------------------------------------------------------------
(* C20                                                                     *)
InvNoPanic == HaveLast => \A i \in DOMAIN Last.runs : NoPanic(Last.runs[i])

(* outcome classes of every call (C04 C12 C13 C14 ...)                     *)
InvOutcome == ForRuns(LAMBDA e, r : NoPanic(r) => OutcomeOk(e, r, pcat, pfiles))

(* returned values of every call                                           *)
InvValue == ForRuns(LAMBDA e, r : (OkRun(e, r) => ValOk(e, r, pcat)) /\ StoppedOk(e, r, pcat))

(* C01 (also C02 under the twin profile, C11 under the rich-value profile) *)
InvC01 == ForRuns(LAMBDA e, r :
             (e.op \in {"FindAll", "ForEach", "IterateDocs", "FindById", "Derived"}) =>
                /\ NoPanic(r)            \* a call that does not return normally returns no documents
                /\ OutcomeOk(e, r, pcat, pfiles)
                /\ OkRun(e, r) => ValOk(e, r, pcat)
                /\ StoppedOk(e, r, pcat))

(* C08: only sorted / windowed queries                                     *)
InvC08 == ForRuns(LAMBDA e, r :
             (e.op \in {"FindAll", "ForEach", "IterateDocs", "Derived"}
                /\ HasColl(pcat, e.c)
                /\ (QueryOf(e).sort # <<>> \/ Windowed(QueryOf(e)))) =>
                /\ NoPanic(r)
                /\ OutcomeOk(e, r, pcat, pfiles)
                /\ OkRun(e, r) => ValOk(e, r, pcat))

(* C09                                                                     *)
InvC09 == ForRuns(LAMBDA e, r :
             (e.op \in QueryReadOps) =>
                /\ NoPanic(r)
                /\ OutcomeOk(e, r, pcat, pfiles)
                /\ OkRun(e, r) => ValOk(e, r, pcat)
                /\ StoppedOk(e, r, pcat)
                /\ PureOk(r))
\* reads leave the database unchanged
InvReadsPure == ForRuns(LAMBDA e, r :
             (e.op \in ReadOps /\ HasField(r, "audit")) => AuditOk(r.audit, pcat))

(* C03                                                                     *)
InvC03 == ForRuns(LAMBDA e, r :
             (e.op \in BulkOps \cup {"DropCollection"}) =>
                /\ NoPanic(r)
                /\ OutcomeOk(e, r, pcat, pfiles)
                /\ CallsOk(e, r, pcat)
                /\ HasField(r, "audit") => DocsAuditOk(r.audit, cat) /\ CatalogAuditOk(r.audit, cat))

\* ... and they are the documents the same query returned a moment before (FindAll issued right
\* before the bulk operation, nothing in between): also where the specification leaves the choice
\* open (a window without a total order), the two calls must make the same one
Prev == Log[l - 2]
InvC03Pair ==
    (l > 2 /\ HaveLast /\ popen /\ Last.op \in BulkOps /\ Prev.op = "FindAll"
       /\ HasField(Prev, "q") /\ HasField(Prev, "c") /\ Prev.c = Last.c /\ Prev.q = Last.q /\ HasColl(pcat, Last.c)) =>
      \A i \in DOMAIN Last.runs :
         (i \in DOMAIN Prev.runs /\ Prev.runs[i].res.st = "ok" /\ OkRun(Last, Last.runs[i])
            /\ (Last.op = "UpdateFunc" \/ HasField(Last.runs[i], "audit"))) =>
            HintOf(Last, Last.runs[i], pcat, pfiles).sel \subseteq {DocId(Prev.runs[i].res.val[k]) : k \in DOMAIN Prev.runs[i].res.val}

(* C02: bulk operations select the same documents whatever the indexes     *)
InvC02 == ForRuns(LAMBDA e, r :
             (e.op \in BulkOps \cup {"FindAll", "Count", "Derived"}) =>
                /\ NoPanic(r)
                /\ OutcomeOk(e, r, pcat, pfiles)
                /\ OkRun(e, r) => ValOk(e, r, pcat)
                /\ HasField(r, "audit") => DocsAuditOk(r.audit, cat))

(* C06 (and the state part of C04, C05, C12, C13, C14)                     *)
InvAudit        == ForRuns(LAMBDA e, r : HasField(r, "audit") => AuditOk(r.audit, cat))
InvAuditDocs    == ForRuns(LAMBDA e, r : HasField(r, "audit") => DocsAuditOk(r.audit, cat))
InvAuditCatalog == ForRuns(LAMBDA e, r : HasField(r, "audit") => CatalogAuditOk(r.audit, cat))
InvAuditIndexes == ForRuns(LAMBDA e, r : HasField(r, "audit") =>
                      IndexCatalogAuditOk(r.audit, cat) /\ EntriesAuditOk(r.audit, cat))
InvAuditKeyIsId == ForRuns(LAMBDA e, r : HasField(r, "audit") => KeyIsIdAuditOk(r.audit))

(* C04, invalid-input part: an error leaves the key space as it was        *)
InvErrNoTrace == ForRuns(LAMBDA e, r :
             (r.res.st = "err" /\ HasField(r, "audit")) => AuditOk(r.audit, pcat))

(* C04: a store failure at any call is reported and leaves no trace; the    *)
(* handle stays usable (the follow-up writes are ordinary events)          *)
InvFault == ForRuns(LAMBDA e, r :
             Faulted(e) => /\ r.res.st = "err"
                           /\ HasField(r, "audit") => AuditOk(r.audit, cat))
\* every other call of a fault trace behaves as specified
InvFaultRest == ForRuns(LAMBDA e, r :
             ~Faulted(e) => /\ NoPanic(r)
                            /\ OutcomeOk(e, r, pcat, pfiles)
                            /\ OkRun(e, r) => ValOk(e, r, pcat)      \* the handle's own view is the stored one
                            /\ HasField(r, "audit") => AuditOk(r.audit, cat))

(* C05: every public write is exactly one store transaction, committed once *)
InvOneTx == ForRuns(LAMBDA e, r :
             (e.op \in WriteOps /\ HasField(r, "tx") /\ ~Faulted(e) /\ NoPanic(r)) =>
                /\ r.tx.beginw <= 1 /\ r.tx.commit <= 1
                \* an effective write is one transaction committed once (a successful no-op need not commit)
                /\ (r.res.st = "ok" /\ cat # pcat) => r.tx.beginw = 1 /\ r.tx.commit = 1
                /\ r.res.st = "err" => r.tx.commit = 0)

(* C05: after a process kill every acknowledged operation is present, the   *)
(* operation in flight is entirely present or entirely absent, and counts,  *)
(* indexes and catalog are intact without any rebuild                       *)
InvCrash == (HaveLast /\ Last.op = "CrashReopen") =>
                \A i \in DOMAIN Last.runs :
                   /\ HasField(Last.runs[i], "audit") /\ HasField(Last.runs[i].audit, "colls")
                   /\ AuditOk(Last.runs[i].audit, cat)
\* acknowledged results of the killed process are the specified ones
InvCrashAcks == ForRuns(LAMBDA e, r :
             (r.res.st \in {"ok", "err"} /\ ~InFlight(e) /\ e.op # "CrashReopen") => OutcomeOk(e, r, pcat, pfiles))

(* C05, clean close/reopen part                                            *)
InvReopen == (HaveLast /\ Last.op = "Reopen") =>
                \A i \in DOMAIN Last.runs :
                   HasField(Last.runs[i], "audit") => AuditOk(Last.runs[i].audit, cat)

(* C12                                                                     *)
C12Ops == {"Insert", "InsertOne", "Save", "ReplaceById", "UpdateById", "Update", "UpdateFunc", "FindById"}
InvC12 == ForRuns(LAMBDA e, r :
             (e.op \in C12Ops) =>
                /\ NoPanic(r)
                /\ OutcomeOk(e, r, pcat, pfiles)
                /\ OkRun(e, r) => ValOk(e, r, pcat)
                /\ HasField(r, "audit") => DocsAuditOk(r.audit, cat) /\ KeyIsIdAuditOk(r.audit))

(* C13                                                                     *)
C13Ops == {"CreateCollection", "DropCollection", "HasCollection", "ListCollections"}
InvC13 == ForRuns(LAMBDA e, r :
                /\ (e.op \in C13Ops \/ (HasField(e, "c") /\ ~HasColl(pcat, e.c))) => NoPanic(r)
                /\ (e.op \in C13Ops \/ (HasField(e, "c") /\ ~HasColl(pcat, e.c))) => OutcomeOk(e, r, pcat, pfiles)
                /\ (e.op \in C13Ops /\ OkRun(e, r)) => ValOk(e, r, pcat)
                /\ HasField(r, "audit") =>
                      /\ CatalogAuditOk(r.audit, cat) /\ DocsAuditOk(r.audit, cat)
                      /\ SizeAuditOk(r.audit, cat) /\ IndexCatalogAuditOk(r.audit, cat))

(* C14                                                                     *)
C14Ops == {"CreateIndex", "DropIndex", "HasIndex", "ListIndexes"}
InvC14 == ForRuns(LAMBDA e, r :
                /\ e.op \in C14Ops => NoPanic(r) /\ OutcomeOk(e, r, pcat, pfiles)
                /\ (e.op \in C14Ops /\ OkRun(e, r)) => ValOk(e, r, pcat)
                \* results obtained through the surviving indexes
                /\ (e.op \in {"FindAll", "Derived"} /\ OkRun(e, r)) => ValOk(e, r, pcat)
                /\ HasField(r, "audit") =>
                      IndexCatalogAuditOk(r.audit, cat) /\ EntriesAuditOk(r.audit, cat))

(* C15: every backend gives the same observable results                    *)
\* (diagnostic texts and the query fingerprints are not results)
ResultFields(r) == DOMAIN r.res \ {"msg", "stack", "qfp"}
InvBackendsAgree ==
    HaveLast => \A i, j \in DOMAIN Last.runs :
                   /\ ResultFields(Last.runs[i]) = ResultFields(Last.runs[j])
                   /\ \A k \in ResultFields(Last.runs[i]) : Last.runs[i].res[k] = Last.runs[j].res[k]

\* ... and leaves the same stored state on every backend
InvAuditAgree ==
    HaveLast => \A i, j \in DOMAIN Last.runs :
                   (HasField(Last.runs[i], "audit") /\ HasField(Last.runs[j], "audit")) =>
                      Last.runs[i].audit = Last.runs[j].audit

(* C19                                                                     *)
C19Ops == {"Export", "Import"}
InvC19 == ForRuns(LAMBDA e, r :
             (e.op \in C19Ops) =>
                /\ NoPanic(r)
                /\ OutcomeOk(e, r, pcat, pfiles)
                /\ HasField(r, "audit") => AuditOk(r.audit, cat))
\* the exported file holds exactly the JSON typing of the collection
InvExportFile == ForRuns(LAMBDA e, r :
             (e.op = "Export" /\ OkRun(e, r) /\ HasField(r.res, "file")) =>
                LET want == files[e.path][2]
                    got  == r.res.file
                IN /\ Len(got) = Len(want)
                   /\ {got[i] : i \in DOMAIN got} = {want[i] : i \in DOMAIN want})

=============================================================================
