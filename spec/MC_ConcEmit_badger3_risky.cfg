SPECIFICATION Spec
CONSTANTS
  Backend = "badger"
  MetaAlways = FALSE
  PointMeta = FALSE
  Gs = {1,2,3}
  IdSet = {1, 2}
  WithReads = TRUE
  Vals = {1, 2}
INVARIANTS EmitDone
CHECK_DEADLOCK FALSE
