---------------------------- MODULE MC_ConcEmit ----------------------------
(***************************************************************************)
(* Behaviours of CloverConc for the Go harness (DESIGN.md 13.2): one line  *)
(* per terminal state - initial content, the operation of each goroutine,  *)
(* the schedule (the clock values of every Start and Finish step order     *)
(* them totally), and what the model predicts: each result, which          *)
(* transactions the store rejects, the final committed state.  The harness *)
(* replays the schedule on the real code with gates at the store's Begin   *)
(* and Commit / Rollback calls; TraceLin decides the property on what the  *)
(* code did, the prediction is compared as advisory drift.  The `risky`    *)
(* configurations run the model with the pre-repair write sets: the        *)
(* behaviours it marks lin = FALSE are the schedules on which the          *)
(* correctness of the real code hinges (they are all replayed).            *)
(***************************************************************************)
EXTENDS CloverConc, Json

EmitDone ==
    AllDone =>
       PrintT("CONC " \o ToJson(
          [be    |-> Backend,
           idx   |-> db0.idx,
           docs  |-> db0.docs,
           progs |-> progs,
           t0    |-> [g \in Gs |-> tx[g].t0],
           t1    |-> [g \in Gs |-> tx[g].t1],
           res   |-> [g \in Gs |-> tx[g].res],
           ab    |-> [g \in Gs |-> tx[g].aborted],
           fin   |-> [idx |-> db.idx, size |-> db.size, docs |-> db.docs, ents |-> db.ents],
           \* under pre-repair constants: is this one of the behaviours the repairs are there for?
           lin   |-> (\E p \in Orders : RespectsRealTime(p) /\ ReplayFrom(p, 1, db0) = db)]))
=============================================================================
