------------------------------ MODULE TraceRW ------------------------------
(***************************************************************************)
(* Binding of CloverConc.tla to the code: for every operation of the       *)
(* model's pool, executed alone on every small initial content, the keys   *)
(* the real code reads (Get, cursor Item) and writes (Set, Delete) inside  *)
(* its store transaction are recorded by a store wrapper, abstracted to    *)
(* the model's key space (<<"M">>, <<"D", id>>, <<"E", v, id>>) and        *)
(* compared with Effect(op, s):                                            *)
(*   - the write sets must be equal;                                        *)
(*   - every key the model says is read must really be read (reading more  *)
(*     only causes more conflicts: scans read one entry past their range); *)
(*   - the result class and the resulting content must agree.              *)
(* A disagreement means the model no longer describes the code ("model     *)
(* drift"); it is reported as such, never as a violation of C07.           *)
(***************************************************************************)
EXTENDS CloverConc, Json, IOUtils

Log == ndJsonDeserialize(IOEnv.TRACE_FILE)

VARIABLE l
\* (the state variables of CloverConc are not used here: only its operator Effect is)
TraceInit == /\ l = 1
             /\ db = InitDb /\ log = <<>> /\ tx = <<>> /\ bad = FALSE /\ progs = <<>> /\ db0 = InitDb /\ clock = 0
TraceNext == l <= Len(Log) /\ l' = l + 1 /\ UNCHANGED vars
TraceSpec == TraceInit /\ [][TraceNext]_<<l, vars>>
TraceAlias == [l |-> l]
TraceAccepted == TLCGet("stats").diameter - 1 = Len(Log)

KeyOf(k) == IF k[1] = "M" THEN <<"M">> ELSE IF k[1] = "D" THEN <<"D", k[2]>> ELSE <<"E", k[2], k[3]>>
KeySet(ks) == {KeyOf(ks[i]) : i \in DOMAIN ks}

StateOf(x) == [idx  |-> x.idx = 1,
               size |-> x.size,
               docs |-> [i \in IdSet |-> x.docs[i]],
               ents |-> {<<x.ents[k][1], x.ents[k][2]>> : k \in DOMAIN x.ents}]

\* (bulk operations return their selection - a set -, the others a string)
ResClass(op, r) == IF op[1] \in {"UpdateWhere", "DeleteWhere"} THEN "ok"
                   ELSE IF r \in {"dup", "nodoc", "exists", "noindex"} THEN "err" ELSE "ok"

LineOk(e) ==
    LET s   == StateOf(e.pre)
        eff == Effect(e.op, s)
    IN \* (a failed call rolls its transaction back: what it tried to write does not matter)
       /\ IF e.st = "ok" THEN KeySet(e.writes) = eff.writes ELSE eff.writes = {}
       /\ eff.reads \subseteq KeySet(e.reads)
       /\ e.st = ResClass(e.op, eff.res)
       /\ StateOf(e.post) = eff.new

InvRW == (l > 1 /\ Log[l - 1].kind = "rwset") => LineOk(Log[l - 1])

=============================================================================
