------------------------------- MODULE MC_L1 -------------------------------
(***************************************************************************)
(* Exhaustive small-scope exploration of Clover.tla (the abstract          *)
(* database) and generation of inputs for the real code (DESIGN.md 5.3).   *)
(*                                                                         *)
(* TLC enumerates every public operation instance drawn from small pools   *)
(* in every reachable database state, checks the state invariants and the  *)
(* action properties below, and - when Emit is on - prints one EDGE line   *)
(* per transition of the reachable graph: the path that leads to the       *)
(* source state (hist, hidden from the state fingerprint by VIEW) and the  *)
(* operation instance to execute there.  The Go harness replays those      *)
(* against clover and TraceL1 judges what it observes.                     *)
(***************************************************************************)
EXTENDS Clover, Json

CONSTANTS
    CollPool,       \* collection names in play (created and never created)
    NIds,           \* ids 1..NIds
    XVals,          \* values a document's field x may take
    YVals,          \* values a document's field xy may take
    LitPool,        \* literals used in criteria
    IdxFields,      \* fields that may be indexed
    QueryLevel,     \* 0: leaves only, 1: + Not, 2: + And/Or of leaves
    Emit,           \* print EDGE lines
    MaxHist         \* bound on the path length (state constraint)

VARIABLES hist, last
mcvars == <<cat, files, open, hist, last>>

FX  == <<120>>          \* "x"
FXY == <<120, 121>>     \* "xy"
Missing == "zz"         \* a collection that is never created

UUID(n) == [i \in 1..36 |-> IF i \in {9, 14, 19, 24} THEN 45
                            ELSE IF i = 36 THEN 48 + n ELSE 48]
IdPool == {UUID(n) : n \in 1..NIds}

NoVal == <<"none">>     \* field not present

MkDoc(id, x, y) ==
    LET d0 == <<"obj", << <<IdKey, <<"str", id>> >> >> >>
        d1 == IF x = NoVal THEN d0 ELSE Set(d0, FX, x)
    IN IF y = NoVal THEN d1 ELSE Set(d1, FXY, y)

DocPool == {MkDoc(id, x, y) : id \in IdPool, x \in XVals \cup {NoVal}, y \in YVals \cup {NoVal}}

---------------------------------------------------------------------------
(* queries                                                                 *)
CmpOps == {"eq", "gt", "gte", "lt", "lte"}
Leaves ==
    {Un(op, FX, Lit(v)) : op \in CmpOps, v \in LitPool}
    \cup {Un("exists", FX, NoCrit)}
    \cup {Un("in", FX, <<"list", <<Lit(v), Lit(w)>> >>) : v, w \in LitPool}
    \cup {Un("eq", FX, <<"ref", FXY>>), Un("lt", FX, <<"dollar", FXY>>)}
    \cup {Un("eq", FXY, Lit(v)) : v \in LitPool}
    \* the derived builders of query.Field
    \cup {<<"sugar", "neq", FX, Lit(v)>> : v \in LitPool}
    \cup {<<"sugar", s, FX, NoCrit>> : s \in {"notexists", "isnil", "isnilornotexists"}}
BinLeaves == {Un(op, FX, Lit(v)) : op \in CmpOps, v \in LitPool}
InLeaves  == {Un("in", FX, <<"list", <<Lit(v), Lit(w)>> >>) : v, w \in LitPool}
Crits ==
    Leaves
    \cup (IF QueryLevel >= 1
          THEN {Not(c) : c \in Leaves}
               \* negations the planner cannot simply push down: chains, under And / Or
               \cup {Not(Not(c)) : c \in BinLeaves} \cup {Not(Not(Not(c))) : c \in BinLeaves}
               \cup {And(Not(Not(Not(a))), b) : a, b \in BinLeaves}
               \cup {And(b, Not(Not(Not(a)))) : a, b \in BinLeaves}
               \cup {Or(Not(Not(a)), b) : a, b \in BinLeaves}
          ELSE {})
    \cup (IF QueryLevel >= 2
          THEN {And(a, b) : a, b \in BinLeaves} \cup {Or(a, b) : a, b \in BinLeaves}
               \cup {Not(And(a, b)) : a, b \in {Un(op, FX, Lit(v)) : op \in {"lt", "gte"}, v \in LitPool}}
               \cup {And(a, Un("eq", FXY, Lit(v))) : a \in BinLeaves, v \in LitPool}
               \* membership tests (and their negations) next to a bound on the same field
               \cup {And(i, b) : i \in InLeaves, b \in BinLeaves} \cup {And(b, i) : i \in InLeaves, b \in BinLeaves}
               \cup {And(Not(i), b) : i \in InLeaves, b \in BinLeaves} \cup {And(b, Not(i)) : i \in InLeaves, b \in BinLeaves}
               \cup {Not(Or(i, b)) : i \in InLeaves, b \in BinLeaves}
          ELSE {})

SortPool == { <<>>, << <<"sort", << <<FX, 1>> >> >> >>, << <<"sort", << <<FX, -1>> >> >> >>,
              << <<"sort", <<>> >> >> }
WinPool  == { <<>>, << <<"skip", 1>> >>, << <<"limit", 1>> >>, << <<"skip", 1>>, <<"limit", 1>> >> }

Builders == {w \o s \o win : w \in ({<<>>} \cup {<< <<"where", c>> >> : c \in Crits}),
                              s \in SortPool, win \in WinPool}
\* bulk operations: fewer criteria (those that filter on the rewritten field), every sort / window
BulkCrits    == {c \in Leaves : c[2] \in {"lt", "eq", "gte"} /\ c[3] = FX /\ c[4][1] = "lit"}
BulkBuilders == {w \o s \o win : w \in ({<<>>} \cup {<< <<"where", c>> >> : c \in BulkCrits}),
                                  s \in SortPool, win \in WinPool}

SomeX   == CHOOSE v \in XVals : v # Nil
UpdPool == { <<"set", FX, v>> : v \in XVals } \cup { <<"setInPlace", FX, v>> : v \in XVals }
           \cup { <<"unset", FX>>, <<"id">> }
BulkUpds == { <<"set", FX, SomeX>>, <<"setInPlace", FX, SomeX>>, <<"nil">> }

---------------------------------------------------------------------------
MCInit == Init /\ hist = <<>> /\ last = [op |-> "none"]

(* The operation instances do not depend on the state, so the reachable graph's edges are the  *)
(* product (distinct states) x (instances): TLC prints every instance once (from the initial   *)
(* state) and every distinct state once, with the path that reaches it (EmitState is listed as *)
(* an invariant: TLC evaluates invariants exactly once per distinct state).                    *)
EmitEdge(e) == (Emit /\ hist = <<>> /\ cat = <<>>) => PrintT("EVENT " \o ToJson(e))
\* the corner that a selection of states is steered by: under an index on x, a document that lacks x and one that
\* holds nil there share a key (2: the one lacking x has the smaller id, so it comes first in the index; 1: the other way)
NilCornerRank ==
    IF \E c \in DOMAIN cat : FX \in cat[c].idx /\
          \E i, j \in DOMAIN cat[c].docs : i # j /\ ~Has(cat[c].docs[i], FX) /\ Get(cat[c].docs[j], FX) = Nil
              /\ Has(cat[c].docs[j], FX) /\ BytesCmp(i, j) < 0
    THEN 2
    ELSE IF \E c \in DOMAIN cat : FX \in cat[c].idx /\
          \E i, j \in DOMAIN cat[c].docs : i # j /\ ~Has(cat[c].docs[i], FX) /\ Get(cat[c].docs[j], FX) = Nil
              /\ Has(cat[c].docs[j], FX)
    THEN 1 ELSE 0
EmitState   == Emit => PrintT("STATE " \o ToJson([hist |-> hist, corner |-> NilCornerRank]))

\* admissible hints for e in the current state
HintsFor(e) ==
    CASE e.op \in {"Insert", "InsertOne", "Save"} ->
            {[ids |-> [i \in DOMAIN e.docs |-> DocId(e.docs[i])], sel |-> {}]}
      [] e.op \in BulkOps /\ HasColl(cat, e.c) ->
            {[ids |-> <<>>, sel |-> s] : s \in SUBSET Ids(cat, e.c)}
      [] OTHER -> {[ids |-> <<>>, sel |-> {}]}

Write(e) ==
    /\ open
    /\ EmitEdge(e)
    /\ \/ \E h \in HintsFor(e) : Succeed(e, h)
       \/ Fail(e)
    /\ hist' = IF cat' # cat THEN Append(hist, e) ELSE hist
    /\ last' = e

Read(e) ==
    /\ open
    /\ EmitEdge(e)
    /\ UNCHANGED <<cat, files, open, hist>>
    /\ last' = e

MCNext ==
    \/ \E c \in CollPool : Write([op |-> "CreateCollection", c |-> c])
    \/ \E c \in CollPool : Write([op |-> "DropCollection", c |-> c])
    \/ \E c \in CollPool \cup {Missing}, d \in DocPool :
          Write([op |-> "Insert", c |-> c, docs |-> <<d>>])
    \/ \E c \in CollPool, d1, d2 \in DocPool :
          /\ d1 # d2
          /\ Write([op |-> "Insert", c |-> c, docs |-> <<d1, d2>>])
    \/ \E c \in CollPool, d \in DocPool :
          Write([op |-> "ReplaceById", c |-> c, id |-> DocId(d), docs |-> <<d>>])
    \/ \E c \in CollPool, id \in IdPool, u \in UpdPool :
          Write([op |-> "UpdateById", c |-> c, id |-> id, upd |-> u])
    \/ \E c \in CollPool, d \in DocPool :
          Write([op |-> "Save", c |-> c, docs |-> <<d>>])
    \* DB.Update with an update map (no window: the selection is the matching set)
    \/ \E c \in CollPool, w \in ({<<>>} \cup {<< <<"where", cr>> >> : cr \in BulkCrits}), v \in XVals :
          Write([op |-> "Update", c |-> c, q |-> w, upd |-> <<"setall", << <<FX, v>> >> >>])
    \/ \E c \in CollPool \cup {Missing}, id \in IdPool :
          Write([op |-> "DeleteById", c |-> c, id |-> id])
    \/ \E c \in CollPool, b \in BulkBuilders, u \in BulkUpds :
          Write([op |-> "UpdateFunc", c |-> c, q |-> b, upd |-> u])
    \/ \E c \in CollPool, b \in BulkBuilders :
          Write([op |-> "Delete", c |-> c, q |-> b])
    \/ \E c \in CollPool \cup {Missing}, f \in IdxFields :
          Write([op |-> "CreateIndex", c |-> c, f |-> f])
    \/ \E c \in CollPool, f \in IdxFields :
          Write([op |-> "DropIndex", c |-> c, f |-> f])
    \/ \E c \in CollPool, b \in Builders :
          Read([op |-> "Derived", c |-> c, q |-> b, js |-> <<0, 1, 2>>,
                ids |-> [i \in 1..NIds |-> UUID(i)]])
    \/ Read([op |-> "Derived", c |-> Missing, q |-> <<>>, js |-> <<0>>, ids |-> <<UUID(1)>>])
    \* IterateDocs with a consumer that returns an error at its j-th call
    \/ \E c \in CollPool, w \in ({<<>>} \cup {<< <<"where", cr>> >> : cr \in BulkCrits}), s \in SortPool, j \in {0, 1, 2} :
          Read([op |-> "IterateDocs", c |-> c, q |-> w \o s, j |-> j])
    \/ \E c \in CollPool \cup {Missing} : Read([op |-> "ListIndexes", c |-> c])
    \/ Read([op |-> "ListCollections"])

MCSpec == MCInit /\ [][MCNext]_mcvars

MCView == <<cat, files, open>>

HistBound == Len(hist) <= MaxHist

---------------------------------------------------------------------------
(* properties of the abstract database checked on the model                *)
MCTypeOK == TypeOK
MCInv    == Inv

\* C13 / C14: an operation on one collection never changes another one
OthersUntouched ==
    [][\A c \in DOMAIN cat \cap DOMAIN cat' :
          ("c" \in DOMAIN last' /\ last'.c # c) => cat'[c] = cat[c]]_mcvars

\* C12: ids never change, no document becomes reachable under another key
IdsStable ==
    [][\A c \in DOMAIN cat' : \A id \in DOMAIN cat'[c].docs : DocId(cat'[c].docs[id]) = id]_mcvars

\* C04 (first sentence) / C09: a failed or read-only call changes nothing
ReadsPure == [][last'.op \in ReadOps => cat' = cat]_mcvars

---------------------------------------------------------------------------
(* constant pools for the configurations (ordinals refer to the "general"  *)
(* number table of the harness: 8 = one, 10 = two, 11 = three)             *)
N1i == <<"num", 8, "i">>
N1f == <<"num", 8, "f">>
N2i == <<"num", 10, "i">>
N3u == <<"num", 11, "u">>
SA  == <<"str", <<97>> >>

XValsTiny   == {N1i, N2i}
YValsTiny   == {N1i}
LitTiny     == {N1i, N2i}
XValsNil    == {Nil, N1i, N2i}
LitNil      == {Nil, N1i, N2i}
XValsSmall  == {Nil, N1i, N1f, N2i, SA}
YValsSmall  == {N2i}
LitSmall    == {Nil, N1f, N2i}
XValsMedium == {Nil, N1i, N1f, N2i, N3u, SA}
YValsMedium == {N1i, SA}
LitMedium   == {Nil, N1i, N2i, N3u, SA}
IdxNone     == {}
IdxX        == {FX}
IdxBoth     == {FX, FXY}
OneColl     == {"a"}
TwoColls    == {"a", "ab"}

=============================================================================
