----------------------------- MODULE CloverDoc -----------------------------
(***************************************************************************)
(* L0: documents.  A document is an "obj" value.  Field paths are byte     *)
(* strings; '.' (46) separates path segments (document.lookupField).       *)
(***************************************************************************)
EXTENDS CloverValues

IdKey      == <<95, 105, 100>>                                    \* "_id"
ExpiresKey == <<95, 101, 120, 112, 105, 114, 101, 115, 65, 116>>  \* "_expiresAt"

EmptyObj == <<"obj", <<>>>>

RECURSIVE SplitFrom(_, _, _, _)
SplitFrom(s, i, cur, acc) ==
    IF i > Len(s) THEN Append(acc, cur)
    ELSE IF s[i] = 46 THEN SplitFrom(s, i + 1, <<>>, Append(acc, cur))
    ELSE SplitFrom(s, i + 1, Append(cur, s[i]), acc)

\* strings.Split(name, "."): "" -> <<"">>, "a..b" -> <<"a","","b">>
SplitDot(s) == SplitFrom(s, 1, <<>>, <<>>)

ObjHas(ps, k) == \E i \in DOMAIN ps : ps[i][1] = k
ObjLookup(ps, k) ==
    IF ObjHas(ps, k) THEN ps[CHOOSE i \in DOMAIN ps : ps[i][1] = k][2] ELSE Absent

\* insert or replace, keeping keys ascending
ObjPut(ps, k, v) ==
    IF ObjHas(ps, k)
    THEN [i \in DOMAIN ps |-> IF ps[i][1] = k THEN <<k, v>> ELSE ps[i]]
    ELSE LET n == Cardinality({i \in DOMAIN ps : BytesCmp(ps[i][1], k) < 0})
         IN SubSeq(ps, 1, n) \o << <<k, v>> >> \o SubSeq(ps, n + 1, Len(ps))

ObjDel(ps, k) == SelectSeq(ps, LAMBDA p : p[1] # k)

RECURSIVE GetSegs(_, _, _)
\* non-forcing lookup: Absent when a segment is missing or an intermediate
\* value is not a map
GetSegs(v, segs, i) ==
    IF v[1] # "obj" THEN Absent
    ELSE LET x == ObjLookup(v[2], segs[i]) IN
         IF x = Absent THEN Absent
         ELSE IF i = Len(segs) THEN x
         ELSE GetSegs(x, segs, i + 1)

GetRaw(d, path) == GetSegs(d, SplitDot(path), 1)          \* value or Absent
Has(d, path)    == GetRaw(d, path) # Absent
Get(d, path)    == LET x == GetRaw(d, path) IN IF x = Absent THEN Nil ELSE x

RECURSIVE SetSegs(_, _, _, _)
\* forcing assignment: missing or non-map intermediates are replaced by maps
SetSegs(obj, segs, i, val) ==
    IF i = Len(segs) THEN <<"obj", ObjPut(obj[2], segs[i], val)>>
    ELSE LET x   == ObjLookup(obj[2], segs[i])
             sub == IF x # Absent /\ x[1] = "obj" THEN x ELSE EmptyObj
         IN <<"obj", ObjPut(obj[2], segs[i], SetSegs(sub, segs, i + 1, val))>>

Set(d, path, val) == SetSegs(d, SplitDot(path), 1, val)

\* SetAll with an update "map" given as a sequence of <<path, value>>; the
\* drivers only generate maps whose paths do not overlap, so the (random)
\* Go map iteration order does not matter
RECURSIVE SetAllFrom(_, _, _)
SetAllFrom(d, upd, i) ==
    IF i > Len(upd) THEN d ELSE SetAllFrom(Set(d, upd[i][1], upd[i][2]), upd, i + 1)
SetAll(d, upd) == SetAllFrom(d, upd, 1)

\* top-level removal (used by named updaters)
Unset(d, key) == <<"obj", ObjDel(d[2], key)>>

DocId(d) == LET x == ObjLookup(d[2], IdKey) IN
            IF x # Absent /\ x[1] = "str" THEN x[2] ELSE <<>>

\* Document.Fields(false): sorted top-level keys
TopFields(d) == [i \in DOMAIN d[2] |-> d[2][i][1]]

(* Path laws (C18) over a finite universe of documents, paths and values.  *)
SetGetLaw(D, P, V) == \A d \in D, p \in P, v \in V :
                         /\ Has(Set(d, p, v), p)
                         /\ Get(Set(d, p, v), p) = v
SetIdempotent(D, P, V) == \A d \in D, p \in P, v \in V :
                         Set(Set(d, p, v), p, v) = Set(d, p, v)
HasGetLaw(D, P) == \A d \in D, p \in P : (~Has(d, p)) => Get(d, p) = Nil

=============================================================================
