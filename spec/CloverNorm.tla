----------------------------- MODULE CloverNorm -----------------------------
(***************************************************************************)
(* L0 (part): normalisation of Go values to clover's canonical types (C18),*)
(* transcribed from the documented behaviour of Document.Set /             *)
(* NewDocumentOf / Insert.                                                 *)
(*                                                                         *)
(* Go values (GoVal):                                                      *)
(*   <<"nil">>                       untyped nil                           *)
(*   <<"int", ord, width, zero>>     any signed integer kind               *)
(*   <<"uint", ord, width, zero>>    any unsigned integer kind             *)
(*   <<"float", ord, width, zero>>   float32 / float64                     *)
(*   <<"string", bytes>>  <<"bool", 0|1>>  <<"time", ord, zone>>           *)
(*   <<"ptr", g>>  <<"nilptr">>      pointers of any depth                 *)
(*   <<"struct", fields>>            fields: <<name, tag, omitempty,       *)
(*                                   embedded, exported, g>> in Go order   *)
(*   <<"map", stringKeys, pairs>>    pairs: <<keybytes, g>>                *)
(*   <<"slice", elems>>  <<"array", elems>>                                *)
(*   <<"unsupported">>               chan, func, complex, ...              *)
(***************************************************************************)
EXTENDS CloverDoc

Err == <<"err">>

IsEmptyG(g) ==
    CASE g[1] \in {"int", "uint", "float"} -> g[4] = 1
      [] g[1] = "string" -> g[2] = <<>>
      [] g[1] = "bool"   -> g[2] = 0
      [] g[1] \in {"nil", "nilptr"} -> TRUE
      [] g[1] = "map"    -> g[3] = <<>>
      [] g[1] \in {"slice", "array"} -> g[2] = <<>>
      [] OTHER -> FALSE

RECURSIVE Norm(_), NormElems(_, _, _), NormPairs(_, _, _), NormFields(_, _, _)

Norm(g) ==
    CASE g[1] = "nil"    -> Nil
      [] g[1] = "int"    -> <<"num", g[2], "i">>       \* signed integers become int64
      [] g[1] = "uint"   -> <<"num", g[2], "u">>       \* unsigned become uint64
      [] g[1] = "float"  -> <<"num", g[2], "f">>       \* floats become float64
      [] g[1] = "string" -> <<"str", g[2]>>
      [] g[1] = "bool"   -> <<"bool", g[2]>>
      [] g[1] = "time"   -> g
      [] g[1] = "ptr"    -> Norm(g[2])                 \* pointers are followed ...
      [] g[1] = "nilptr" -> Nil                        \* ... to nil or a value
      [] g[1] = "struct" -> NormFields(g[2], 1, <<>>)
      [] g[1] = "map"    -> IF g[2] = 0 THEN Err ELSE NormPairs(g[3], 1, <<>>)   \* maps need string keys
      [] g[1] \in {"slice", "array"} -> NormElems(g[2], 1, <<>>)
      [] g[1] = "unsupported" -> Err

NormElems(es, i, acc) ==
    IF i > Len(es) THEN <<"arr", acc>>
    ELSE LET v == Norm(es[i]) IN
         IF v = Err THEN Err ELSE NormElems(es, i + 1, Append(acc, v))

NormPairs(ps, i, acc) ==
    IF i > Len(ps) THEN <<"obj", acc>>
    ELSE LET v == Norm(ps[i][2]) IN
         IF v = Err THEN Err ELSE NormPairs(ps, i + 1, ObjPut(acc, ps[i][1], v))

RECURSIVE MergeInto(_, _, _)
MergeInto(acc, ps, i) == IF i > Len(ps) THEN acc ELSE MergeInto(ObjPut(acc, ps[i][1], ps[i][2]), ps, i + 1)

\* structs become maps honouring `clover` tags: rename, omitempty, embedded flattening;
\* unexported fields are skipped
NormFields(fs, i, acc) ==
    IF i > Len(fs) THEN <<"obj", acc>>
    ELSE LET f     == fs[i]
             name  == IF f[2] # <<>> THEN f[2] ELSE f[1]
         IN IF f[5] = 0 THEN NormFields(fs, i + 1, acc)
            ELSE IF f[3] = 1 /\ IsEmptyG(f[6]) THEN NormFields(fs, i + 1, acc)
            ELSE LET v == Norm(f[6]) IN
                 IF v = Err THEN Err
                 ELSE IF f[4] = 1 /\ v[1] = "obj"
                      THEN NormFields(fs, i + 1, MergeInto(acc, v[2], 1))
                      ELSE NormFields(fs, i + 1, ObjPut(acc, name, v))

(* canonical values embedded back as Go values (for idempotence)           *)
RECURSIVE Embed(_)
Embed(v) ==
    CASE v[1] = "nil"  -> <<"nil">>
      [] v[1] = "num"  -> IF v[3] = "i" THEN <<"int", v[2], 64, 0>>
                          ELSE IF v[3] = "u" THEN <<"uint", v[2], 64, 0>>
                          ELSE <<"float", v[2], 64, 0>>
      [] v[1] = "str"  -> <<"string", v[2]>>
      [] v[1] = "bool" -> <<"bool", v[2]>>
      [] v[1] = "time" -> v
      [] v[1] = "arr"  -> <<"slice", [i \in DOMAIN v[2] |-> Embed(v[2][i])]>>
      [] v[1] = "obj"  -> <<"map", 1, [i \in DOMAIN v[2] |-> <<v[2][i][1], Embed(v[2][i][2])>>]>>

\* deterministic and idempotent
NormIdempotent(G) == \A g \in G : Norm(g) # Err => Norm(Embed(Norm(g))) = Norm(g)

=============================================================================
