SPECIFICATION MCSpec
CONSTANTS
  CollPool <- TwoColls
  NIds = 2
  XVals <- XValsTiny
  YVals <- YValsTiny
  LitPool <- LitTiny
  IdxFields <- IdxX
  QueryLevel = 0
  Emit = FALSE
  MaxHist = 5
VIEW MCView
CONSTRAINT HistBound
INVARIANTS MCTypeOK MCInv
PROPERTIES OthersUntouched IdsStable ReadsPure
CHECK_DEADLOCK FALSE
