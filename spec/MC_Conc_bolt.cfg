SPECIFICATION Spec
CONSTANTS
  Backend = "bolt"
  MetaAlways = TRUE
  PointMeta = TRUE
  Gs = {1,2}
  IdSet = {1, 2}
  WithReads = TRUE
  Vals = {1, 2}
INVARIANTS Linearizable Consistent
CHECK_DEADLOCK FALSE
