SPECIFICATION Spec
CONSTANTS
  Backend = "bolt"
  MetaAlways = TRUE
  PointMeta = TRUE
  Gs = {1,2}
  IdSet = {1, 2}
  WithReads = TRUE
  Vals = {1, 2}
INVARIANTS EmitDone Linearizable
CHECK_DEADLOCK FALSE
