------------------------------ MODULE CloverKV ------------------------------
(***************************************************************************)
(* L2: the representation of an L1 database in the flat ordered key space  *)
(* of a store (C06, C13, C14).                                             *)
(*                                                                         *)
(* Byte strings are sequences of 0..255.  Three key families share the     *)
(* space:                                                                  *)
(*   metadata of collection n       "coll:" n                              *)
(*   document id of collection n    "c:" n ";d:" id                        *)
(*   entry of the index on f of n   "c:" n ";i:" f ";" "t:" T ";v:" code id*)
(* and every scan of clover is a prefix scan: ListCollections over "coll:",*)
(* the documents of n over "c:" n ";d:", the entries (and the drop) of an  *)
(* index over "c:" n ";i:" f ";".  An object OWNS a key when the key was   *)
(* built for it; a scan CLAIMS a key when the key starts with the scan's   *)
(* prefix.  Isolation (C13, C14) and exact drops (C06) need claims and     *)
(* ownership to coincide; the laws below state it and MC_KV checks them    *)
(* for all names, field names and suffixes over small alphabets.  The key  *)
(* constructors are bound to the code by the `keys` observations of        *)
(* TraceAux (every key the real code sets, deletes or seeks for an object  *)
(* is the one built here).                                                 *)
(***************************************************************************)
EXTENDS Integers, Sequences, FiniteSets

SEMI  == 59                                  \* ';' the reserved separator
Bcoll == <<99, 111, 108, 108, 58>>           \* "coll:"
Bc    == <<99, 58>>                          \* "c:"
Bd    == <<100, 58>>                         \* "d:"
Bi    == <<105, 58>>                         \* "i:"
Bt    == <<116, 58>>                         \* "t:"
Bv    == <<118, 58>>                         \* "v:"

HasPrefix(k, p) == Len(p) <= Len(k) /\ SubSeq(k, 1, Len(p)) = p
TrimPrefix(k, p) == SubSeq(k, Len(p) + 1, Len(k))
Suffix(k, n) == SubSeq(k, Len(k) - n + 1, Len(k))

Digit(t) == <<48 + t>>                       \* type ids are single digits

MetaPrefix        == Bcoll
MetaKey(n)        == Bcoll \o n
CollRoot(n)       == Bc \o n \o <<SEMI>>
DocPrefix(n)      == CollRoot(n) \o Bd
DocKey(n, id)     == DocPrefix(n) \o id
IdxPrefix(n, f)   == CollRoot(n) \o Bi \o f \o <<SEMI>>
IdxTypePrefix(n, f, t) == IdxPrefix(n, f) \o Bt \o Digit(t) \o <<SEMI>> \o Bv
IdxKey(n, f, t, code, id) == IdxTypePrefix(n, f, t) \o code \o id

TypeIds == 0..9

\* what the scans decode
ListedName(k)  == TrimPrefix(k, MetaPrefix)          \* ListCollections
DocIdOf(n, k)  == TrimPrefix(k, DocPrefix(n))        \* iteration over the documents of n
EntryIdOf(k, idLen) == Suffix(k, idLen)              \* extractDocId: the last idLen bytes

Free(s) == \A i \in DOMAIN s : s[i] # SEMI           \* free of the reserved separator

---------------------------------------------------------------------------
(* Laws, for a collection name n and a field name f against every other    *)
(* name n2 / field f2 of a universe, document ids Ids and entry suffixes    *)
(* Rests (type, code and id of an entry: arbitrary bytes).                 *)

\* the catalog scan claims exactly the metadata keys, and decodes the name
MetaLaw(n, Names, Fields, Ids, Rests) ==
    /\ HasPrefix(MetaKey(n), MetaPrefix) /\ ListedName(MetaKey(n)) = n
    /\ \A n2 \in Names : (MetaKey(n) = MetaKey(n2)) <=> (n = n2)
    /\ \A id \in Ids : ~HasPrefix(DocKey(n, id), MetaPrefix)
    /\ \A f \in Fields, r \in Rests : ~HasPrefix(IdxPrefix(n, f) \o r, MetaPrefix)
    /\ \A n2 \in Names : ~HasPrefix(MetaKey(n), CollRoot(n2))

\* the document scan of n2 claims a document key of n iff n = n2, and decodes the id;
\* no index scan claims it
DocLaw(n, Names, Fields, Ids) ==
    \A id \in Ids :
       /\ DocIdOf(n, DocKey(n, id)) = id
       /\ \A n2 \in Names :
             /\ HasPrefix(DocKey(n, id), DocPrefix(n2)) <=> (n = n2)
             /\ \A f2 \in Fields : ~HasPrefix(DocKey(n, id), IdxPrefix(n2, f2))

\* the scan (and the drop) of the index on f2 of n2 claims an entry of the index on f of n
\* iff n = n2 and f = f2; no document scan claims it; the id is the suffix
IdxLaw(n, f, Names, Fields, Ids, Rests) ==
    \A r \in Rests :
       LET k == IdxPrefix(n, f) \o r IN
       \A n2 \in Names :
          /\ ~HasPrefix(k, DocPrefix(n2))
          /\ \A f2 \in Fields : HasPrefix(k, IdxPrefix(n2, f2)) <=> (n = n2 /\ f = f2)

\* dropping collection n (its documents, every index entry, the metadata key: all under
\* CollRoot(n) or equal to MetaKey(n)) claims nothing of another collection
RootLaw(n, Names, Fields, Ids, Rests) ==
    \A n2 \in Names : n2 # n =>
       /\ \A id \in Ids : ~HasPrefix(DocKey(n2, id), CollRoot(n))
       /\ \A f \in Fields, r \in Rests : ~HasPrefix(IdxPrefix(n2, f) \o r, CollRoot(n))

\* the id of an entry is what follows its value code.  Codes are self-delimiting (no code is a
\* proper prefix of another), so the split of code \o id is unique whatever the length of the
\* id - while taking the last L bytes is right only for ids of exactly L bytes
PrefixFree(Codes) == \A c1, c2 \in Codes : HasPrefix(c1, c2) => c1 = c2
SplitLaw(Codes, Ids) ==
    \A c1, c2 \in Codes, id1, id2 \in Ids : (c1 \o id1 = c2 \o id2) => (c1 = c2 /\ id1 = id2)
FixedSplitLaw(Codes, Ids, L) ==
    \A c \in Codes, id \in Ids : L <= Len(c \o id) /\ Suffix(c \o id, L) = id

KVLaws(n, f, Names, Fields, Ids, Rests) ==
    /\ MetaLaw(n, Names, Fields, Ids, Rests)
    /\ DocLaw(n, Names, Fields, Ids)
    /\ IdxLaw(n, f, Names, Fields, Ids, Rests)
    /\ RootLaw(n, Names, Fields, Ids, Rests)

=============================================================================
