SPECIFICATION Spec
CONSTANTS
  Backend = "badger"
  MetaAlways = TRUE
  PointMeta = TRUE
  Gs = {1,2,3}
  IdSet = {1, 2}
  WithReads = TRUE
  Vals = {1, 2}
INVARIANTS EmitDone
CHECK_DEADLOCK FALSE
